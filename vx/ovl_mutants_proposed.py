"""Proposed entries for vx/mutants.py (properties C10 / C11, units ovl_layer / ovl_real / ovl_merge / ovl_ops).  Every `old` occurs exactly
once in its file at /repo HEAD c4f2dab (checked by the self-test at the bottom); each mutant was killed in the sub-agent's campaign with the
obligation given in the comment.  For the ovl_ops mutants of C11 run the unit with VX_OVL_REC=1 (default) and compare against the
baseline failures (the reproduced findings) - or run them on a tree with findings/overlay_lower_record.patch applied, where the baseline is ok."""
L = 'src/api/filesystem/overlay.rs'
M = 'src/overlayfs/mod.rs'
S = 'src/overlayfs/sync_io.rs'
EROFS_IF = "        if !self.in_upper_layer {\n            return Err(Error::from_raw_os_error(libc::EROFS));\n        }\n\n"

MUTANTS = {
    'C10': [
        # C10.real.mkdir.erofs + ovl_real.mkdir.upper
        ('real-mkdir-no-upper-check', M, EROFS_IF + "        let cname = utils::to_cstring(name)?;\n        let entry = self\n            .layer\n            .mkdir(",
         "        let cname = utils::to_cstring(name)?;\n        let entry = self\n            .layer\n            .mkdir("),
        # C10.is_whiteout.chardev00
        ('whiteout-wrong-devnum', L, 'is_chardev(st) && major == 0 && minor == 0', 'is_chardev(st) && major == 0 && minor == 1'),
        # C10.layer.is_opaque.value
        ('opaque-value-n', L, "buf[0].eq_ignore_ascii_case(&b'y')", "buf[0].eq_ignore_ascii_case(&b'n')"),
        # C10.create_whiteout.result + ovl_layer.create_whiteout.cap
        ('create-whiteout-blockdev', L, 'let mode = libc::S_IFCHR | 0o777;', 'let mode = libc::S_IFBLK | 0o777;'),
        # C10.set_opaque.result + ovl_layer.set_opaque.cap
        ('set-opaque-writes-n', L, '            b"y",', '            b"n",'),
        # ovl_merge.new_from_real_inodes.union_rule
        ('union-ignores-lower-whiteout', M, "                // This is whiteout, no need to record this, break directly.\n                if ri.whiteout {\n                    break;\n                }\n", ""),
        # ovl_merge.new_from_real_inodes.union_rule
        ('union-merges-below-opaque-top', M, "                // Opaque directory shadows all lower layers.\n                if opaque {\n                    break;\n                }\n            } else {", "            } else {"),
        # ovl_merge.new_from_real_inodes.union_rule
        ('union-merges-file-below-dir', M, '                if !utils::is_dir(stat) {\n                    error!("invalid layout: non-directory has multiple real inodes");\n                    break;\n                }\n', ''),
        # ovl_merge.scan_childrens.scan_entries
        ('scan-lower-entry-first', M, '                        v.push(inode)\n', '                        v.insert(0, inode)\n'),
        # ovl_merge.scan_childrens.scan_layers
        ('scan-ignores-opaque-dir', M, '            if ri.opaque {\n                debug!("directory {} is opaque", self.path.as_str());\n                break;\n            }\n', ''),
        # C10.lookup_child.flags
        ('lookup-child-flags-swapped', M, '(false, layer.is_opaque(ctx, v.inode)?)', '(layer.is_opaque(ctx, v.inode)?, false)'),
        # ovl_ops.fallocate.upper + C10.fallocate.no_upper
        ('fallocate-lower-guard-removed', S, "                if !rhd.in_upper_layer {\n                    // TODO: in lower layer, error out or just success?\n                    return Err(Error::from_raw_os_error(libc::EROFS));\n                }\n", ""),
        # C10.open.lower_flags (+ C10.open.no_upper): the red-team seed C10-a
        ('open-readonly-by-accmode', S, "        let readonly: bool = flags\n            & (libc::O_APPEND | libc::O_CREAT | libc::O_TRUNC | libc::O_RDWR | libc::O_WRONLY)\n                as u32\n            == 0;\n        // toggle flags\n        let mut flags: i32 = flags as i32;\n",
         "        // toggle flags\n        let mut flags: i32 = flags as i32;\n        let readonly: bool = flags & libc::O_ACCMODE == libc::O_RDONLY;\n"),
        # C10.open.lower_flags
        ('open-copy-up-skipped-for-wronly', S, "& (libc::O_APPEND | libc::O_CREAT | libc::O_TRUNC | libc::O_RDWR | libc::O_WRONLY)\n                as u32\n            == 0;\n        // toggle flags", "& (libc::O_APPEND | libc::O_CREAT | libc::O_TRUNC | libc::O_RDWR)\n                as u32\n            == 0;\n        // toggle flags"),
        # C10.open.lower_flags: the handle is opened on the lower real inode, the copy-up comes too late
        ('open-before-copy-up', S, "        if !readonly {\n            // copy up to upper layer\n            self.copy_node_up(ctx, Arc::clone(&node))?;\n        }\n\n        // assign a handle in overlayfs and open it\n        let (_l, h, _) = node.open(ctx, flags as u32, fuse_flags)?;\n",
         "        // assign a handle in overlayfs and open it\n        let (_l, h, _) = node.open(ctx, flags as u32, fuse_flags)?;\n        if !readonly {\n            // copy up to upper layer\n            self.copy_node_up(ctx, Arc::clone(&node))?;\n        }\n"),
        # C10.open.lower_flags in copy_regfile_up
        ('copy-up-opens-lower-for-write', M, "        let (h, _, _) = lower_layer.open(ctx, lower_inode, libc::O_RDONLY as u32, 0)?;", "        let (h, _, _) = lower_layer.open(ctx, lower_inode, libc::O_RDWR as u32, 0)?;"),
        # C10.layer.is_opaque.names (+ C10.layer.is_opaque): red-team seed C10-b
        ('privileged-opaque-marker-renamed', L, 'pub const PRIVILEGED_OPAQUE_XATTR: &str = "trusted.overlay.opaque";', 'pub const PRIVILEGED_OPAQUE_XATTR: &str = "trusted.overlayfs.opaque";'),
        # C10.layer.is_opaque.names + C10.set_opaque.result + ovl_layer.set_opaque.cap
        ('own-opaque-marker-renamed', L, 'pub const OPAQUE_XATTR: &str = "user.fuseoverlayfs.opaque";', 'pub const OPAQUE_XATTR: &str = "user.fuseoverlay.opaque";'),
        # C10.layer.is_opaque.len
        ('opaque-len-zero', L, 'pub const OPAQUE_XATTR_LEN: u32 = 16;', 'pub const OPAQUE_XATTR_LEN: u32 = 0;'),
        # C10.do_mknod.no_upper
        ('mknod-without-upper-check', M, "        rdev: u32,\n        umask: u32,\n    ) -> Result<()> {\n        if self.upper_layer.is_none() {\n            return Err(Error::from_raw_os_error(libc::EROFS));\n        }\n", "        rdev: u32,\n        umask: u32,\n    ) -> Result<()> {\n"),
    ],
    'C11': [
        # C11.do_rm.whiteout_when_lower
        ('need-whiteout-ignores-record', M, "        if node.upper_layer_only() && !lower_exists {\n            need_whiteout = false;", "        if node.upper_layer_only() {\n            need_whiteout = false;"),
        # C11.do_mkdir.unwhite
        ('do-mkdir-keeps-whiteout', M, "            if delete_whiteout {\n                let _ = parent_real_inode.layer.delete_whiteout(", "            if false {\n                let _ = parent_real_inode.layer.delete_whiteout("),
        # C11.do_mkdir.opaque_when_lower
        ('do-mkdir-opaque-ignores-record', M, "            if !n.upper_layer_only() || lower_exists {\n                set_opaque = true;", "            if !n.upper_layer_only() {\n                set_opaque = true;"),
        # C11.delete_whiteout.not_whiteout + ovl_layer.delete_whiteout.cap
        ('delete-whiteout-unlinks-anything', L, "                if is_whiteout(v.attr) {\n                    return self.unlink(ctx, ino.into(), name);", "                if true {\n                    return self.unlink(ctx, ino.into(), name);"),
        # ovl_ops.copy_regfile_up.cap ([C11.copy_regfile_up.create_cap])
        ('copy-up-drops-mode', M, "            mode: st.st_mode,\n            umask: 0,", "            mode: 0o644,\n            umask: 0,"),
        # ovl_ops.copy_symlink_up.cap ([C11.copy_symlink_up.cap])
        ('copy-symlink-loses-target', M, "parent_real_inode.symlink(ctx, path, node.name.as_str())", "parent_real_inode.symlink(ctx, node.name.as_str(), path)"),
        # ovl_ops.copy_symlink_up.cap ([C11.copy_symlink_up.cap]): red-team seed C11-b (two edits; as one mutant: the lossy conversion)
        ('copy-symlink-lossy-target', M, "        let path =\n            std::str::from_utf8(&path).map_err(|_| Error::from_raw_os_error(libc::EINVAL))?;\n", "        let path = String::from_utf8_lossy(&path);\n        let path: &str = &path;\n"),
        # ovl_ops.create_upper_dir.cap ([C11.create_upper_dir.cap])
        ('upper-dir-mode-dropped', M, "None => parent_ri.mkdir(ctx, self.name.as_str(), st.st_mode, 0)?,", "None => parent_ri.mkdir(ctx, self.name.as_str(), 0o755, 0)?,"),
        # ovl_ops.copy_regfile_up.all_bytes
        ('copy-stops-after-first-chunk', M, "            )?;\n            if ret == 0 {\n                break;\n            }\n\n            offset += ret;\n        }\n\n        // Drop will remove file automatically.", "            )?;\n            if ret >= 0 {\n                break;\n            }\n\n            offset += ret;\n        }\n\n        // Drop will remove file automatically."),
        # ovl_ops.copy_regfile_up.read_all
        ('copy-reads-one-byte-late', M, "                &mut file,\n                size,\n                offset as u64,\n                None,\n                0,\n            )?;", "                &mut file,\n                size,\n                offset as u64 + 1,\n                None,\n                0,\n            )?;"),
        # C11.add_upper_inode.front
        ('add-upper-inode-clear-inverted', M, '        if !clear_lowers {\n            // If not clear lowers', '        if clear_lowers {\n            // If not clear lowers'),
        # C11.create_upper_dir.keeps_lowers + C11.create_upper_dir.lower_record
        ('upper-dir-drops-lowers', M, "            self.add_upper_inode(ri, false);", "            self.add_upper_inode(ri, true);"),
        # C11.copy_symlink_up.node + C11.copy_up.in_upper
        ('copy-up-node-not-updated', M, "        if let Some(real_inode) = new_upper_real {\n            // update upper_inode and first_inode()\n            node.add_upper_inode(real_inode, true);\n        }", ""),
    ],
}

if __name__ == '__main__':
    import sys
    root = sys.argv[1] if len(sys.argv) > 1 else '/repo'
    bad = 0
    for prop, ms in MUTANTS.items():
        for (name, f, old, new) in ms:
            c = open(root + '/' + f).read().count(old)
            if c != 1 or old == new:
                print('BAD', prop, name, c)
                bad += 1
    print('checked', sum(len(v) for v in MUTANTS.values()), 'mutants,', bad, 'bad')
