"""Proposed entries for vx/mutants.py (properties C08 / C05 / C16, unit fhcmp: the order on file handles in src/passthrough/file_handle.rs, the DAX
and readdir wrappers of src/passthrough/sync_io.rs).  Every `old` occurs exactly once in its file at /repo HEAD (self-test at the bottom:
`python3 vx/fhcmp_mutants_proposed.py [SRC]`); each mutant was killed in the sub-agent's campaign with the obligation(s) given in the comment
(baseline of the unit on the unchanged tree: STATUS ok).  BENIGN lists edits that must stay STATUS ok (not for vx/mutants.py; used by the campaign)."""
FH = 'src/passthrough/file_handle.rs'
PTS = 'src/passthrough/sync_io.rs'
VIRTIO = 'src/abi/virtio_fs.rs'

SLICECMP = '''return s_fh
                    .f_handle
                    .as_slice(length)
                    .cmp(o_fh.f_handle.as_slice(length));'''

MUTANTS = {
    'C08': [
        # handles of different type with the same bytes compare Equal.  killed by C08.fhcmp.cmp.spec, .equal_iff
        ('fhcmp-type-not-compared', FH, 'if s_fh.handle_type != o_fh.handle_type {', 'if false && s_fh.handle_type != o_fh.handle_type {'),
        # the window is the maximal size, not the handle's: reads behind the allocation.  killed by C08.fhcmp.as_slice.in_bounds
        ('fhcmp-window-max-size', FH, 'let length = s_fh.handle_bytes as usize;', 'let length = MAX_HANDLE_SIZE;'),
        # only half of the bytes are compared.  killed by C08.fhcmp.cmp.spec, .equal_iff
        ('fhcmp-half-compared', FH, SLICECMP, SLICECMP.replace('as_slice(length)', 'as_slice(length / 2)')),
        # the pointer shortcut inverted: two different objects are always Equal.  killed by C08.fhcmp.cmp.spec, .equal_iff
        ('fhcmp-ptr-shortcut-inverted', FH, 'if s_fh.f_handle.as_ptr() != o_fh.f_handle.as_ptr() {', 'if s_fh.f_handle.as_ptr() == o_fh.f_handle.as_ptr() {'),
        # not antisymmetric: a shorter-or-longer handle is always Less.  killed by C08.fhcmp.cmp.spec
        ('fhcmp-length-always-less', FH, 'return s_fh.handle_bytes.cmp(&o_fh.handle_bytes);', 'return Ordering::Less;'),
        # a longer left handle falls through to the byte comparison: the right window leaves its allocation.  killed by C08.fhcmp.as_slice.in_bounds (+ .spec)
        ('fhcmp-length-one-sided', FH, 'if s_fh.handle_bytes != o_fh.handle_bytes {', 'if s_fh.handle_bytes < o_fh.handle_bytes {'),
        # eq disagrees with cmp.  killed by C08.fhcmp.eq.consistent, .same_value
        ('fhcmp-eq-is-le', FH, 'self.cmp(other) == Ordering::Equal', 'self.cmp(other) != Ordering::Greater'),
        # partial_cmp disagrees with cmp.  killed by C08.fhcmp.partial_cmp.consistent
        ('fhcmp-partial-cmp-reversed', FH, 'Some(self.cmp(other))', 'Some(other.cmp(self))'),
        # the accessor hands out one element more than it was asked for.  killed by C08.fhcmp.from_raw_parts.in_bounds, C08.fhcmp.as_slice.window (+ overflow)
        ('fhcmp-as-slice-one-more', FH, '::std::slice::from_raw_parts(self.as_ptr(), len)', '::std::slice::from_raw_parts(self.as_ptr(), len + 1)'),
        # byte comparison result dropped: equal length and type means Equal.  killed by C08.fhcmp.cmp.spec, .equal_iff
        ('fhcmp-bytes-ignored', FH, SLICECMP, 'let _ = s_fh.f_handle.as_slice(length).cmp(o_fh.f_handle.as_slice(length));'),
    ],
    'C05': [
        # a read-only mapping request re-opens for writing and vice versa.  killed by C05.open_inode.special_never_reopened (the re-open capability), C05.dax.setupmapping.map_call
        ('fhcmp-dax-rdwr-swapped', PTS, '''            libc::O_RDWR
        } else {
            libc::O_RDONLY
        };''', '''            libc::O_RDONLY
        } else {
            libc::O_RDWR
        };'''),
        # the write bit is looked for in the wrong place.  killed by the same two
        ('fhcmp-dax-tests-read-flag', PTS, 'virtio_fs::SetupmappingFlags::WRITE.bits()', 'virtio_fs::SetupmappingFlags::READ.bits()'),
        # file offset and window offset swapped.  killed by C05.dax.hostcall.map
        ('fhcmp-dax-offsets-swapped', PTS, '(*vu_req).map(foffset, moffset, len, flags, file.as_raw_fd())', '(*vu_req).map(moffset, foffset, len, flags, file.as_raw_fd())'),
        # the flags handed to the mapper lose the write bit.  killed by C05.dax.hostcall.map
        ('fhcmp-dax-flags-masked', PTS, '(*vu_req).map(foffset, moffset, len, flags, file.as_raw_fd())', '(*vu_req).map(foffset, moffset, len, flags & !1, file.as_raw_fd())'),
        # the file is truncated when mapped.  killed by C05.open_inode.special_never_reopened (no capability for these flags)
        ('fhcmp-dax-open-trunc', PTS, 'let file = self.open_inode(inode, open_flags)?;', 'let file = self.open_inode(inode, open_flags | libc::O_TRUNC)?;'),
        # nothing is unmapped, success is reported.  killed by C05.dax.removemapping.once, .reply
        ('fhcmp-dax-unmap-skipped', PTS, '        (*vu_req).unmap(requests)', '        let _ = (requests, vu_req); Ok(())'),
        # an empty list is handed on.  killed by C05.dax.hostcall.unmap
        ('fhcmp-dax-unmap-empty-list', PTS, '        (*vu_req).unmap(requests)', '        { drop(requests); (*vu_req).unmap(Vec::new()) }'),
        # the ABI constant itself (C13 by KX; also visible here).  killed by C05.open_inode.special_never_reopened, C05.dax.hostcall.map
        ('fhcmp-dax-abi-write-bit', VIRTIO, 'const WRITE = 0x1;', 'const WRITE = 0x4;'),
    ],
    'C16': [
        # the listing always restarts at the beginning.  killed by C16.ptwrap.hostcall.do_readdir
        ('fhcmp-readdir-offset-zero', PTS, '''        self.do_readdir(inode, handle, size, offset, &mut |mut dir_entry, _dir| {
            dir_entry.ino = {''', '''        self.do_readdir(inode, handle, size, 0, &mut |mut dir_entry, _dir| {
            dir_entry.ino = {'''),
        # readdirplus fills only half of the reply.  killed by C16.ptwrap.hostcall.do_readdir
        ('fhcmp-readdirplus-half-size', PTS, '''        self.do_readdir(inode, handle, size, offset, &mut |mut dir_entry, _dir| {
            // Safe because''', '''        self.do_readdir(inode, handle, size / 2, offset, &mut |mut dir_entry, _dir| {
            // Safe because'''),
        # the switch inverted: a listing only when listings are switched off.  killed by C16.ptwrap.readdir.gate, .once, .reply
        ('fhcmp-readdir-gate-inverted', PTS, '''        if self.no_readdir.load(Ordering::Relaxed) {
            return Ok(());
        }
        self.do_readdir(inode, handle, size, offset, &mut |mut dir_entry, _dir| {
            dir_entry.ino = {''', '''        if !self.no_readdir.load(Ordering::Relaxed) {
            return Ok(());
        }
        self.do_readdir(inode, handle, size, offset, &mut |mut dir_entry, _dir| {
            dir_entry.ino = {'''),
        # the entries are looked up under another directory (the closure captures `handle` instead of `inode`).  killed by C16.ptwrap.hostcall.do_readdir
        ('fhcmp-readdirplus-looks-up-elsewhere', PTS, '''            let entry = self.do_lookup(inode, name)?;
            let ino = entry.inode;''', '''            let entry = self.do_lookup(handle, name)?;
            let ino = entry.inode;'''),
        # a failed listing is reported as success.  killed by C16.ptwrap.readdirplus.reply
        ('fhcmp-readdirplus-error-swallowed', PTS, '''            res
        })
    }''', '''            res
        })
        .ok();
        Ok(())
    }'''),
    ],
}

BENIGN = [
    # comments and a renamed local
    ('b-rename-length', [(FH, 'let length = s_fh.handle_bytes as usize;', 'let nbytes = s_fh.handle_bytes as usize; // number of bytes of f_handle in use'),
                         (FH, SLICECMP, SLICECMP.replace('length', 'nbytes'))]),
    ('b-rename-open-flags', [(PTS, 'let open_flags = if (flags & virtio_fs::SetupmappingFlags::WRITE.bits()) != 0 {', '// access mode of the mapping\n        let oflags = if (flags & virtio_fs::SetupmappingFlags::WRITE.bits()) != 0 {'),
                             (PTS, 'let file = self.open_inode(inode, open_flags)?;', 'let file = self.open_inode(inode, oflags)?;')]),
    # operands of a commutative expression re-ordered
    ('b-mask-operands-swapped', [(PTS, '(flags & virtio_fs::SetupmappingFlags::WRITE.bits()) != 0', '0 != (virtio_fs::SetupmappingFlags::WRITE.bits() & flags)')]),
    ('b-ptr-operands-swapped', [(FH, 'if s_fh.f_handle.as_ptr() != o_fh.f_handle.as_ptr() {', 'if o_fh.f_handle.as_ptr() != s_fh.f_handle.as_ptr() {')]),
    # two independent statements swapped
    ('b-lets-swapped', [(FH, '''        let s_fh = self.wrapper.as_fam_struct_ref();
        let o_fh = other.wrapper.as_fam_struct_ref();
        if s_fh.handle_bytes != o_fh.handle_bytes {''', '''        let o_fh = other.wrapper.as_fam_struct_ref();
        let s_fh = self.wrapper.as_fam_struct_ref();
        if s_fh.handle_bytes != o_fh.handle_bytes {''')]),
    # a re-wrapped statement: the flag word computed by assignment instead of an if-expression; the byte comparison bound to a local first
    ('b-flags-by-assignment', [(PTS, '''        let open_flags = if (flags & virtio_fs::SetupmappingFlags::WRITE.bits()) != 0 {
            libc::O_RDWR
        } else {
            libc::O_RDONLY
        };''', '''        let mut open_flags = libc::O_RDONLY;
        if (flags & virtio_fs::SetupmappingFlags::WRITE.bits()) != 0 {
            open_flags = libc::O_RDWR;
        }''')]),
    ('b-slices-bound-first', [(FH, SLICECMP, '''let mine = s_fh.f_handle.as_slice(length);
                let theirs = o_fh.f_handle.as_slice(length);
                return mine.cmp(theirs);''')]),
    # length test moved behind the type test would be another total order but is NOT benign for this unit (the spec fixes the order of the components): not listed
]


def selftest(src='/repo'):
    bad = 0
    for prop, ms in MUTANTS.items():
        for (name, file, old, new) in ms:
            n = open('%s/%s' % (src, file)).read().count(old)
            if n != 1 or old == new:
                print('BAD %s %s: old text occurs %d times' % (prop, name, n))
                bad += 1
    for (name, edits) in BENIGN:
        for (file, old, new) in edits:
            n = open('%s/%s' % (src, file)).read().count(old)
            if n != 1:
                print('BAD benign %s: old text occurs %d times' % (name, n))
                bad += 1
    print('%d mutants, %d benign edits, %d bad' % (sum(len(v) for v in MUTANTS.values()), len(BENIGN), bad))
    return bad


if __name__ == '__main__':
    import sys
    sys.exit(1 if selftest(sys.argv[1] if len(sys.argv) > 1 else '/repo') else 0)
