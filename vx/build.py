"""Generate one Verus file per unit from /repo's current text, run Verus, classify the outcome."""
import hashlib
import json
import os
import re
import subprocess
import time

from . import extract as X
from .api import Fn, Copy, Raw, Group, Unit, ByteConst, Lifted, TAG_RE, GTAG_RE

HERE = os.path.dirname(os.path.abspath(__file__))
VERIF = os.path.dirname(HERE)
BUILD = os.path.join(VERIF, 'build')

FILE_HEADER = '''#![feature(allocator_api)]
#![allow(unused_imports, dead_code, unused_variables, unused_mut, non_snake_case, non_camel_case_types, unused_assignments, unused_parens, unreachable_code, unreachable_patterns, non_upper_case_globals)]
use vstd::prelude::*;
use std::marker::PhantomData;
'''

PROOF_KINDS = (
    'postcondition not satisfied', 'precondition not satisfied', 'assertion failed',
    'possible arithmetic underflow/overflow', 'invariant not satisfied', 'possible division by zero',
    'loop invariant not preserved', 'loop invariant not satisfied', 'decreases not satisfied',
    'possible bit shift underflow/overflow', 'recommendation not met', 'index out of bounds',
    'cannot show', 'termination', 'unreachable', 'might', 'possible', 'unable to prove',
)


class Generated:
    def __init__(self):
        self.lines = []          # text lines
        self.origin = []         # per line: None | (fn_key, repo_file, repo_line, ghost)
        self.fns = {}            # fn_key -> info dict
        self.copies = []
        self.fired = {}


def _emit(gen, text, origin=None):
    for ln in text.split('\n'):
        gen.lines.append(ln)
        gen.origin.append(origin)


def _emit_fn(gen, root, fn, canary_false=False, body_assumed=False):
    """canary_false: emit a second copy of the function, renamed <name>__canary and never called, with `ensures false`
    appended (a callee with a false postcondition would make its callers vacuously true, so the original stays as it is)."""
    src = _source(root, fn.file)
    fired = []
    # opt-in (units ovl_*): `fn.locate = callable(src, fired) -> dict(sig, body, line, body_line)` takes the text of the item from
    # somewhere other than a `fn` item (a named local closure lifted to a function, rule R26 in vx/ovlrules.py)
    d = fn.locate(src, fired) if getattr(fn, 'locate', None) else src.find_fn(fn.scope, fn.name)
    r18 = 'R18' in getattr(fn, 'rules', ())
    sig0 = X.r18b_sig(d['sig'], src.src, fired) if 'R18b' in getattr(fn, 'rules', ()) else d['sig']
    sig = X.rewrite_sig(X.r18_sig(sig0, fired) if r18 else sig0, fired, fn.ret_name)
    rules_ = getattr(fn, 'rules', ())
    gtok = getattr(fn, 'ghost_token', None) if 'R23' in rules_ else None      # dict(param=, arg=, callees=[..]); see extract.r23_*
    if gtok:
        sig = X.r23_ghost_token_sig(sig, fired, gtok['param'])
    for (a, b) in fn.sig_subst:
        if a not in sig:
            if fn.lenient_sig:
                continue
            raise X.ExtractError('ANCHOR-LOST sig_subst in %s::%s: %r' % (fn.file, fn.name, a))
        sig = sig.replace(a, b)
        fired.append('SIG %r -> %r' % (a, b))
    if canary_false:
        sig = re.sub(r'\bfn\s+%s\b' % re.escape(fn.name), 'fn %s__canary' % fn.name, sig, count=1)
    key = '%s::%s::%s%s' % (fn.file, fn.scope or '', fn.name, '#canary' if canary_false else '')
    body_orig = d['body']
    if fn.external_body or (body_assumed and not canary_false):
        body = '{ unimplemented!() }'
        fired.append('R9 body not extracted (external_body, contract assumed)')
    else:
        body = X.rewrite_body(body_orig, fired)
        if r18:
            body = X.r18_await(body, fired)
        if 'R21' in rules_:
            body = X.r21_for_ref_iter(body, fired)
        if 'R22' in rules_:
            body = X.r22_iter_position(body, fired)
        if 'R24' in rules_:
            body = X.r24_explicit_else(body, fired)
        if 'R32' in rules_:
            body = X.r32_unwrap_or_else(body, fired)
        if 'R33' in rules_:
            body = X.r33_iter_map_collect(body, fired)
        if 'R34' in rules_:
            body = X.r34_continue_to_else(body, fired)
        if 'R31' in rules_:      # Fn form of R31 (unit fusedevw): parenthesised block with explicit else
            body = X.r31_result_inspect(body, fired, paren=True)
        if 'R41' in rules_ or 'R42' in rules_:      # before R40: `.filter(..).fold(..)` is R41's
            body = X.r41_r42_iter_filter(body, fired, rules_)
        if 'R40' in rules_:
            body = X.r40_iter_fold(body, fired)
        if 'R43' in rules_:
            body = X.r43_result_map(body, fired)
        for hook in getattr(fn, 'body_hooks', ()):       # opt-in (units ovl_*): rewrite rules kept in vx/ovlrules.py, `hook(body, fired) -> body`; each logs what it did
            body = hook(body, fired)
        if gtok and gtok.get('callees'):
            body = X.r23_ghost_token_calls(body, fired, gtok['callees'], gtok['arg'])
        if gtok and gtok.get('path_callees'):
            body = X.r23_ghost_token_path_calls(body, fired, gtok['path_callees'], gtok['arg'])
        if gtok and gtok.get('free_callees'):
            body = X.r23_ghost_token_free_calls(body, fired, gtok['free_callees'], gtok['arg'])
        for (a, b) in fn.body_subst:
            if body.count(a) != 1:
                raise X.ExtractError('ANCHOR-LOST body_subst in %s::%s: %r (%d)' % (fn.file, fn.name, a, body.count(a)))
            body = body.replace(a, X._pad(b.replace('\n', X.SEP), a))
            fired.append('SUBST %r -> %r' % (a[:50], b[:50]))
        for (rx, rep, why) in fn.body_resub:
            n = len(re.findall(rx, body, flags=re.S))
            every = why.startswith('every:')          # a syntactic rule applied to every occurrence (>= 0) instead of exactly one site
            if n == 0 and not every:
                # the white space the pattern allows may also hold comments (a comment added inside the matched expression does not lose the rule)
                rx2 = rx.replace(r'\s*', r'(?:\s|//[^\n]*\n)*').replace(r'\s+', r'(?:\s|//[^\n]*\n)+')
                if rx2 != rx and len(re.findall(rx2, body, flags=re.S)) == 1:
                    rx, n = rx2, 1
            if n != 1 and not every:
                raise X.ExtractError('ANCHOR-LOST body_resub in %s::%s: /%s/ matches %d times' % (fn.file, fn.name, rx, n))
            if n == 0:
                continue
            body = re.sub(rx, lambda m: X._pad(m.expand(rep), m.group(0)), body, count=0 if every else 1, flags=re.S)
            fired.append('ABSTRACT /%s/ -> %s (%s)' % (rx[:60], rep[:60], why))
        body = X.apply_splices(body, fn.splices, fired, key)
    # ---- emit
    start = len(gen.lines) + 1
    for a in fn.attrs:
        _emit(gen, a, (key, fn.file, d['line'], True))
    if fn.external_body or (body_assumed and not canary_false):
        # body_assumed: in the vacuity (canary) file the ORIGINAL functions are not verified again (that is the normal run's job); only their
        # contracts are used by the `__canary` copies.  Keeps the canary run small and free of resource-limit noise in functions it does not test.
        _emit(gen, '#[verifier::external_body]', (key, fn.file, d['line'], True))
    sig_lines = sig.rstrip().split('\n')
    for i, ln in enumerate(sig_lines):
        gen.lines.append(ln)
        gen.origin.append((key, fn.file, d['line'] + i, False))
    o = (key, fn.file, d['line'], True)
    if fn.requires:
        _emit(gen, '    requires', o)
        for c in fn.requires:
            _emit_clause(gen, c, o)
    ens = list(fn.ensures)
    if canary_false:
        ens.append('false // [canary]')
    if ens:
        _emit(gen, '    ensures', o)
        for c in ens:
            _emit_clause(gen, c, o)
    if fn.no_unwind:
        _emit(gen, '    no_unwind', o)
    if fn.decreases:
        _emit(gen, '    decreases ' + fn.decreases + ',', o)
    bl = d['body_line']
    for i, ln in enumerate(body.split('\n')):
        parts = ln.split(X.SEP)
        for j, p in enumerate(parts):
            gen.lines.append(p)
            gen.origin.append((key, fn.file, bl + i, j > 0))
    end = len(gen.lines)
    gen.fns[key] = dict(file=fn.file, scope=fn.scope, name=fn.name, repo_line=d['line'], gen_start=start, gen_end=end,
                        sha_repo=X.sha(d['sig'] + d['body']), sha_emitted=X.sha('\n'.join(gen.lines[start - 1:end])),
                        rules=fired, props=fn.props, canary=(fn.canary and canary_false), external_body=fn.external_body, gtag_props=fn.gtag_props, extra_props=fn.extra_props,
                        n_requires=len(fn.requires), n_ensures=len(fn.ensures))


def drop_tags():
    """second, diagnostic pass of a check that has KNOWN findings: the clauses carrying these tags are taken as given (clause -> `true`,
    spliced `assert` -> `assume`), so that another violation at the same program point is not hidden behind the known one (Verus reports the
    first failing precondition of a call only).  Never used for the verdict on the known finding itself."""
    return set(t for t in os.environ.get('VX_DROP_TAGS', '').split(',') if t)


def _emit_clause(gen, c, o):
    c = c.rstrip()
    m = re.search(r'\s*//\s*((?:\[[^\]]+\]\s*)+)$', c)
    tag = ''
    if m:
        tag = ' // ' + m.group(1).strip()
        c = c[:m.start()]
        if drop_tags() & set(re.findall(r'\[([^\]]+)\]', tag)):
            c = 'true'
    else:
        m = re.search(r'\s//\s[^\n]*$', c)       # a free-text trailing comment on the last line
        if m:
            tag = ' ' + m.group(0).strip()
            c = c[:m.start()]
    c = c.rstrip().rstrip(',')
    _emit(gen, '        ' + c + ',' + tag, o)


_SRC_CACHE = {}


def _source(root, rel):
    k = (root, rel)
    if k not in _SRC_CACHE:
        _SRC_CACHE[k] = X.Source(root, rel)
    return _SRC_CACHE[k]


def publicize(text):
    """visibility only (no run-time meaning): the item and every field of a struct become `pub`, so that spec functions
    of the single-file unit may mention them"""
    msk = X.mask(text)
    m = re.match(r'\s*(pub(\([a-z]+\))?\s+)?(struct|enum|const|type|exec const)\b', msk)
    if not m:
        return text
    kind = m.group(3)
    if not m.group(1):
        text = text[:m.start(3)] + 'pub ' + text[m.start(3):]
        msk = X.mask(text)
    elif m.group(2):
        text = text[:m.start(1)] + 'pub ' + text[m.end(1):]
        msk = X.mask(text)
    if kind != 'struct':
        return text
    # find the field list: first '{' or '(' at angle depth 0 after the name
    k = msk.index('struct')
    d = 0
    while k < len(msk):
        c = msk[k]
        if c == '<':
            d += 1
        elif c == '>' and msk[k - 1] != '-':
            d -= 1
        elif c in '{(' and d == 0:
            break
        elif c == ';' and d == 0:
            return text
        k += 1
    if k >= len(msk):
        return text
    e = X.match_close(msk, k)
    inner, inner_m = text[k + 1:e], msk[k + 1:e]
    out, start, depth = '', 0, 0
    segs = []
    for i, c in enumerate(inner_m):
        if c in '([{<':
            depth += 1
        elif c in ')]}' or (c == '>' and inner_m[i - 1] != '-'):
            depth -= 1
        elif c == ',' and depth == 0:
            segs.append((start, i + 1))
            start = i + 1
    segs.append((start, len(inner)))
    for (a, b) in segs:
        seg, segm = inner[a:b], inner_m[a:b]
        fm = re.search(r'[A-Za-z_&\[(\']', segm)
        if fm and not segm[fm.start():].startswith('pub'):
            seg = seg[:fm.start()] + 'pub ' + seg[fm.start():]
        out += seg
    return text[:k + 1] + out + text[e:]


def _emit_copy(gen, root, cp):
    src = _source(root, cp.file)
    text, line, attrs = src.find_item(cp.regex)
    fired = []
    text = X.r6_resolve_cfg(text, fired)
    text = X.r10_array_repeat(text, fired)
    t2 = re.sub(r'\bpub\((super|crate)\)\s+', 'pub ', text)
    text = t2
    # doc comments inside are fine; derive attributes inside struct bodies do not occur
    for (a, b) in cp.subst:
        if a not in text:
            raise X.ExtractError('ANCHOR-LOST copy subst %s: %r' % (cp.file, a))
        text = text.replace(a, b)
        fired.append('SUBST %r -> %r' % (a, b))
    if cp.array_const:
        m = re.match(r'\s*(?:pub\s+)?const\s+(\w+)\s*:\s*\[(\w+);\s*(\d+)\]\s*=\s*\[([^\]]*)\]\s*;\s*$', text, re.S)
        if not m:
            raise X.ExtractError('array const %s: unexpected shape %r' % (cp.regex, text[:80]))
        elems = [e.strip() for e in m.group(4).split(',') if e.strip()]
        text = 'pub exec const %s: [%s; %s] ensures %s@ =~= seq![%s] { [%s] }' % (
            m.group(1), m.group(2), m.group(3), m.group(1), ', '.join('%s%s' % (e, m.group(2)) for e in elems), ', '.join(elems))
        fired.append('R10 array const -> exec const with its elements as ensures')
    t3 = publicize(text)
    if t3 != text:
        fired.append('R6 visibility normalised (item and fields made pub)')
        text = t3
    if cp.prefix:
        _emit(gen, cp.prefix, ('copy', cp.file, line, True))
    for i, ln in enumerate(text.split('\n')):
        gen.lines.append(ln)
        gen.origin.append(('copy:' + cp.regex, cp.file, line + i, False))
    gen.copies.append(dict(file=cp.file, regex=cp.regex, repo_line=line, sha=X.sha(text), rules=fired))


def _emit_lifted(gen, root, lf, canary_false=False):
    src = _source(root, lf.file)
    d = src.find_fn(lf.scope, lf.name)
    body = d['body']
    msk = X.mask(body)
    hits = [m for m in re.finditer(r'&mut\s*\|[^|]*\|\s*\{', msk)]
    if len(hits) <= lf.nth:
        raise X.ExtractError('ANCHOR-LOST lifted closure %d of %s::%s (found %d closures)' % (lf.nth, lf.file, lf.name, len(hits)))
    m = hits[lf.nth]
    ob = m.end() - 1
    cb = X.match_close(msk, ob)
    ctext = body[ob:cb + 1]
    line = d['body_line'] + body.count('\n', 0, ob)
    fired = ['R17 closure %d of %s lifted into a function' % (lf.nth, lf.name)]
    ctext = X.rewrite_body(ctext, fired)
    # opt-in (set after construction, as for Fn): rules, logged abstractions and the R23 ghost token, applied to the closure's text
    if 'R31' in getattr(lf, 'rules', ()):
        ctext = X.r31_result_inspect(ctext, fired)
    for (rx, rep, why) in getattr(lf, 'body_resub', ()):
        n = len(re.findall(rx, ctext, flags=re.S))
        if n == 0:
            rx2 = rx.replace(r'\s*', r'(?:\s|//[^\n]*\n)*').replace(r'\s+', r'(?:\s|//[^\n]*\n)+')
            if rx2 != rx and len(re.findall(rx2, ctext, flags=re.S)) == 1:
                rx, n = rx2, 1
        if n != 1:
            raise X.ExtractError('ANCHOR-LOST body_resub in lifted closure %d of %s: /%s/ matches %d times' % (lf.nth, lf.name, rx, n))
        ctext = re.sub(rx, lambda mm: X._pad(mm.expand(rep), mm.group(0)), ctext, count=1, flags=re.S)
        fired.append('ABSTRACT /%s/ -> %s (%s)' % (rx[:60], rep[:60], why))
    ltok = getattr(lf, 'ghost_token', None)
    if ltok and ltok.get('callees'):
        ctext = X.r23_ghost_token_calls(ctext, fired, ltok['callees'], ltok['arg'])
    if getattr(lf, 'cont_param', None):
        # R17': the continuation's result is a parameter of the lifted function (the closure goes on after the call)
        ctext = X.r17_cont_as_param(ctext, fired, lf.cont, lf.cont_param)
    else:
        # the continuation call must be the closure's final expression
        cm = re.search(r'\b%s\(([^;]*?)\)\s*\}\s*$' % re.escape(lf.cont), ctext, re.S)
        if not cm:
            raise X.ExtractError('ANCHOR-LOST lifted closure %d of %s: final expression is not a call of %s' % (lf.nth, lf.name, lf.cont))
        ctext = ctext[:cm.start()] + X._pad('Ok((%s))' % cm.group(1), ctext[cm.start():cm.end() - 1]) + '}'
        fired.append('R17 continuation %s(args) -> Ok((args))' % lf.cont)
    ctext = X.apply_splices(ctext, lf.splices, fired, lf.key)
    key = '%s::%s::%s%s' % (lf.file, lf.scope or '', lf.key, '#canary' if canary_false else '')
    sig = lf.sig
    if canary_false:
        sig = re.sub(r'\bfn\s+(\w+)', r'fn \1__canary', sig, count=1)
    start = len(gen.lines) + 1
    o = (key, lf.file, line, True)
    _emit(gen, sig, o)
    if lf.requires:
        _emit(gen, '    requires', o)
        for c in lf.requires:
            _emit_clause(gen, c, o)
    ens = list(lf.ensures) + (['false // [canary]'] if canary_false else [])
    if ens:
        _emit(gen, '    ensures', o)
        for c in ens:
            _emit_clause(gen, c, o)
    for i, ln in enumerate(ctext.split('\n')):
        for j, p in enumerate(ln.split(X.SEP)):
            gen.lines.append(p)
            gen.origin.append((key, lf.file, line + i, j > 0))
    end = len(gen.lines)
    gen.fns[key] = dict(file=lf.file, scope=lf.scope, name=lf.key, repo_line=line, gen_start=start, gen_end=end,
                        sha_repo=X.sha(body[ob:cb + 1]), sha_emitted=X.sha('\n'.join(gen.lines[start - 1:end])),
                        rules=fired, props=lf.props, canary=(lf.canary and canary_false), external_body=False, gtag_props={},
                        n_requires=len(lf.requires), n_ensures=len(lf.ensures))


def _emit_byteconst(gen, root, bc):
    src = _source(root, bc.file)
    m = re.search(r'(?m)^\s*(?:pub\s+)?const\s+%s\s*:\s*&(?:\'static\s+)?\[u8\]\s*=\s*b"' % re.escape(bc.name), src.src)
    if not m:
        raise X.ExtractError('byte const not found: %s::%s' % (bc.file, bc.name))
    k = m.end()
    j = k
    while src.src[j] != '"':
        j += 2 if src.src[j] == '\\' else 1
    lit = src.src[k:j]
    bs = bytes(lit, 'latin-1').decode('unicode_escape').encode('latin-1')
    line = src.line_of(m.start())
    txt = "#[verifier::external_body] pub exec const %s: &'static [u8] ensures %s@ == seq![%s] { b\"%s\" }" % (
        bc.name, bc.name, ', '.join('%du8' % b for b in bs), lit)
    _emit(gen, txt, ('copy:' + bc.name, bc.file, line, False))
    gen.copies.append(dict(file=bc.file, regex='const ' + bc.name, repo_line=line, sha=X.sha(lit),
                           rules=['R11 byte-string literal const -> exec const with its bytes as ensures: %r' % list(bs)]))


def generate(unit, root, canary=False):
    """canary=True: every Fn with canary=True gets `ensures false`."""
    _SRC_CACHE.clear()
    gen = Generated()
    _emit(gen, FILE_HEADER)
    for a in unit.file_attrs:
        _emit(gen, a)
    _emit(gen, 'verus! {')
    for p in unit.preludes:
        _emit(gen, '// ===== prelude: %s (hand-written model / spec; assumptions are listed in the evidence)' % p)
        ptxt = open(os.path.join(HERE, 'prelude', p)).read()
        for (a, b) in getattr(unit, 'prelude_subst', ()):
            ptxt = ptxt.replace(a, b)
        _emit(gen, ptxt)

    def walk(items):
        for it in items:
            if isinstance(it, Raw):
                _emit(gen, it.text)
                # opt-in (unit readerrd): `raw.canary = dict(name=, text=, props=[..])` - a hand-written function that is VERIFIED (hand copy of a
                # std default method over an extracted function) gets its vacuity copy as well: in the canary run `text` (the same function renamed
                # `<name>__canary`, never called, with `false // [canary]` as last ensures clause) is emitted and registered like the copy of an Fn
                cz = getattr(it, 'canary', None)
                if canary and cz:
                    key = 'raw::%s#canary' % cz['name']
                    start = len(gen.lines) + 1
                    _emit(gen, cz['text'], (key, None, None, True))
                    gen.fns[key] = dict(file=None, scope=None, name=cz['name'], repo_line=None, gen_start=start, gen_end=len(gen.lines), sha_repo='',
                                        sha_emitted=X.sha(cz['text']), rules=['hand-written text (Raw): canary copy'], props=list(cz.get('props', ())), canary=True,
                                        external_body=False, gtag_props={}, extra_props=[], n_requires=0, n_ensures=0)
            elif isinstance(it, Copy):
                _emit_copy(gen, root, it)
            elif isinstance(it, ByteConst):
                _emit_byteconst(gen, root, it)
            elif isinstance(it, Lifted):
                _emit_lifted(gen, root, it)
                if canary and it.canary:
                    _emit_lifted(gen, root, it, canary_false=True)
            elif isinstance(it, Group):
                _emit(gen, it.header)
                walk(it.items)
                _emit(gen, '}')
            elif isinstance(it, Fn):
                _emit_fn(gen, root, it, body_assumed=canary)
                if canary and it.canary:
                    _emit_fn(gen, root, it, canary_false=True)
            else:
                raise X.ExtractError('bad unit item %r' % (it,))
    with X.features(getattr(unit, 'cfg_features', ())):      # opt-in per unit (e.g. async-io); the default configuration otherwise
        walk(unit.items)
    _emit(gen, '} // verus!')
    dt = drop_tags()
    if dt:
        for i, ln in enumerate(gen.lines):
            tags = set(re.findall(r'\[([^\]]+)\]', ln.split('//', 1)[1])) if '//' in ln else set()
            if not (tags & dt):
                continue
            if re.match(r'^\s*assert\(', ln):
                gen.lines[i] = ln.replace('assert(', 'assume(', 1)
            else:
                m = re.match(r'^(\s*(?:requires |ensures )?)(.*?),(\s*//.*)$', ln)
                if m and m.group(2).strip() != 'true':
                    gen.lines[i] = m.group(1) + 'true,' + m.group(3)
    _emit(gen, 'fn main() {}')
    return gen


ASSUME_PATTERNS = [
    ('external_body', re.compile(r'#\[verifier::external_body\]')),
    ('assume_specification', re.compile(r'\bassume_specification\b')),
    ('assume', re.compile(r'\bassume\s*\(')),
    ('admit', re.compile(r'\badmit\s*\(')),
    ('uninterp', re.compile(r'\buninterp\s+spec\s+fn\b')),
    ('axiom', re.compile(r'\baxiom\s+fn\b')),
    ('external_type_specification', re.compile(r'external_type_specification')),
    ('external', re.compile(r'#\[verifier::external\]')),
]


def scan_assumptions(gen):
    """mechanical scan of the generated file (DESIGN 3.3): every construct that is assumed rather than proved."""
    out = []
    L = gen.lines
    for i, ln in enumerate(L):
        code = ln.split('//')[0]
        for (kind, rx) in ASSUME_PATTERNS:
            if rx.search(code):
                # describe by the next line that names an item
                desc = code.strip()
                for j in range(i, min(i + 6, len(L))):
                    m = re.search(r'\b(fn|struct|enum|type)\s+(\w+)|assume_specification\s*(?:<[^>]*>)?\s*\[\s*([^\]]+)\]', L[j])
                    if m:
                        desc = (m.group(2) or m.group(3) or '').strip()
                        break
                out.append('%s: %s' % (kind, desc))
    return out


def run_verus(path, rlimit=None, threads=None, timeout=1800):
    cmd = ['verus', path, '--output-json', '--time-expanded', '--multiple-errors', '50', '--error-format=json']
    if rlimit:
        cmd += ['--rlimit', str(rlimit)]
    if threads:
        cmd += ['--num-threads', str(threads)]
    t0 = time.time()
    env = dict(os.environ)
    env.setdefault('CARGO_NET_OFFLINE', 'true')
    try:
        p = subprocess.run(cmd, capture_output=True, text=True, cwd=os.path.dirname(path), timeout=timeout, env=env)
    except subprocess.TimeoutExpired:
        return dict(status='tool-error', reason='verus timeout after %ds' % timeout, cmd=' '.join(cmd), wall_s=time.time() - t0,
                    diags=[], summary={}, fn_times=[])
    wall = time.time() - t0
    summary = {}
    try:
        summary = json.loads(p.stdout)
    except Exception:
        pass
    diags = []
    for ln in p.stderr.splitlines():
        ln = ln.strip()
        if ln.startswith('{'):
            try:
                d = json.loads(ln)
            except Exception:
                continue
            if d.get('$message_type') == 'diagnostic':
                diags.append(d)
    fn_times = []
    try:
        for mod in summary['times-ms']['smt']['smt-run-module-times']:
            for f in mod.get('function-breakdown', []):
                fn_times.append(dict(function=re.sub(r'^(\w+?)_[0-9a-f]{20}::', r'\1::', f['function']), mode=f.get('mode:', f.get('mode')), ms=f['time-micros'] / 1000.0,
                                     rlimit=f.get('rlimit'), success=f['success']))
    except Exception:
        pass
    return dict(cmd=' '.join(cmd), wall_s=wall, rc=p.returncode, summary=summary, diags=diags, fn_times=fn_times,
                stderr_tail=p.stderr[-4000:])


def classify(gen, unit, res):
    """-> dict(status = ok | fail | tool-error, failures=[...], reason)"""
    if res.get('status') == 'tool-error':
        return dict(status='tool-error', reason=res['reason'], failures=[])
    vr = res['summary'].get('verification-results', {})
    errors = [d for d in res['diags'] if d.get('level') == 'error' and not d['message'].startswith('aborting due to')]
    failures, tool_errors = [], []
    for d in errors:
        msg = d['message']
        is_proof = any(msg.startswith(k) or k in msg for k in PROOF_KINDS) and 'rlimit' not in msg and 'Resource limit' not in msg
        if not is_proof and ('rlimit' in msg or 'Resource limit' in msg):
            # a resource-limit hit inside a `__canary` copy means `ensures false` was NOT proved there: that is what the canary wants
            txt = ' '.join(t.get('text', '') for sp in d.get('spans', []) for t in sp.get('text', []))
            in_canary = '__canary' in txt
            for sp in d.get('spans', []):      # ... also when the span is a loop or a statement inside the copy: decided by the line's origin
                ln_ = sp.get('line_start', 0)
                if 0 < ln_ <= len(gen.origin) and gen.origin[ln_ - 1] and str(gen.origin[ln_ - 1][0]).endswith('#canary'):
                    in_canary = True
            if in_canary:
                f = _describe_failure(gen, unit, d)
                f['generic_tags'] = list(f['generic_tags']) + ['canary']
                f['kind'] = 'resource limit in canary copy (false not proved)'
                failures.append(f)
                continue
        if not is_proof:
            tool_errors.append(msg + ' :: ' + (d.get('rendered') or '')[:600])
            continue
        failures.append(_describe_failure(gen, unit, d))
    if tool_errors or vr.get('encountered-vir-error') or (not vr and not failures):
        reason = '; '.join(tool_errors) if tool_errors else ('verus produced no result: ' + res.get('stderr_tail', '')[-800:])
        return dict(status='tool-error', reason=reason, failures=failures)
    # rlimit / timeouts show up as errors with "Resource limit" notes
    if failures:
        return dict(status='fail', failures=failures, reason='')
    if not vr.get('success'):
        return dict(status='tool-error', reason='verus reports failure without diagnostics: ' + res.get('stderr_tail', '')[-800:], failures=[])
    return dict(status='ok', failures=[], reason='')


def _describe_failure(gen, unit, d):
    tags, gtags = [], []
    site = None
    fn_key = None
    callee_hint = None
    for sp in d.get('spans', []):
        ls, le = sp['line_start'], sp['line_end']
        txt = ' '.join(gen.lines[ls - 1:le])
        cm = txt.split('//', 1)[1] if '//' in txt else ''
        if (sp.get('label') or '').startswith('at the end of the function body') and le > ls:
            cm = ''      # the exit span of a fall-through body is the whole body: tag comments of ghost text spliced into it do not name the failing clause
        for t in TAG_RE.findall(cm):
            if t not in tags:
                tags.append(t)
        for t in GTAG_RE.findall(cm):
            if t not in gtags:
                gtags.append(t)
        o = gen.origin[ls - 1] if ls - 1 < len(gen.origin) else None
        if sp.get('is_primary'):
            if o and o[0] and not str(o[0]).startswith('copy'):
                fn_key = o[0]
                site = dict(file=o[1], line=o[2], ghost=o[3], gen_line=ls, text=gen.lines[ls - 1].strip()[:200])
            else:
                site = dict(file=None, line=None, gen_line=ls, text=gen.lines[ls - 1].strip()[:200])
    # prefer a site in real (non-ghost) extracted text: the exit / call site rather than the contract clause
    for sp in d.get('spans', []):
        o = gen.origin[sp['line_start'] - 1] if sp['line_start'] - 1 < len(gen.origin) else None
        if o and o[0] and not str(o[0]).startswith('copy') and not o[3] and (site is None or site.get('ghost') or site.get('file') is None):
            fn_key = fn_key or o[0]
            site = dict(file=o[1], line=o[2], ghost=False, gen_line=sp['line_start'], text=gen.lines[sp['line_start'] - 1].strip()[:200],
                        label=sp.get('label'))
    if fn_key is None:
        # fall back: any span inside an extracted fn
        for sp in d.get('spans', []):
            o = gen.origin[sp['line_start'] - 1]
            if o and o[0] and not str(o[0]).startswith('copy'):
                fn_key = o[0]
                break
    fname = gen.fns[fn_key]['name'] if fn_key in gen.fns else '<prelude>'
    if 'canary' in gtags and fn_key in gen.fns and str(fn_key).endswith('#canary'):
        # the failing clause is the `false` of a canary copy; when its exit span is the whole body, tag comments of ghost text spliced
        # into that body are inside the span: they do not name this obligation
        tags, gtags = [], ['canary']
    props = []
    for t in tags:
        p = t.split('.')[0]
        if p not in props:
            props.append(p)
    over = gen.fns[fn_key].get('gtag_props', {}) if fn_key in gen.fns else {}
    for g in gtags:
        for p in over.get(g, unit.generic_tags.get(g, [])):
            if p not in props:
                props.append(p)
    if not props and fn_key in gen.fns:
        props = list(gen.fns[fn_key]['props'])
    if fn_key in gen.fns:
        for p in gen.fns[fn_key].get('extra_props', []):
            if p not in props:
                props.append(p)
    kind = d['message'].split(':')[0]
    if tags:
        oblig = '+'.join(tags)
        if gtags or fname != '<prelude>':
            oblig_site = fname
        else:
            oblig_site = fname
    else:
        # (a `[canary]` clause names the obligation even if a source comment inside the span happens to contain brackets, e.g. "[u8]")
        oblig = '%s.%s.%s' % (unit.name, fname, ('canary' if 'canary' in gtags else gtags[0] if gtags else kind.replace(' ', '-')))
        oblig_site = fname
    return dict(obligation=oblig, tags=tags, generic_tags=gtags, props=props, kind=kind, function=fname, fn_key=fn_key,
                site=site, rendered=d.get('rendered', '')[:3000])


def _missing_consts(unit, root, res):
    """what a front-end error says the generated file lacks and vx/ondemand.py can supply: libc constants, a few std specifications,
    module-level constants of the crate -> the unit is extended (once) and generated again"""
    from . import ondemand as OD
    subst, raws, copies, log = OD.additions(unit, root, res)
    if not (subst or raws or copies):
        return []
    if subst:
        have = list(getattr(unit, 'prelude_subst', ()))
        subst = [x for x in subst if x not in have]       # normal and canary run share the unit object
        unit.prelude_subst = have + subst
    done = getattr(unit, '_ondemand_done', set())
    raws = [r for r in raws if r not in done]
    copies = [c for c in copies if c not in done]
    unit._ondemand_done = done | set(raws) | set(copies)
    extra = [Raw('\n'.join(raws))] if raws else []
    extra += [Copy(f, rx, make_pub=True) for (f, rx) in copies]
    unit.notes = (getattr(unit, 'notes', '') or '') + '\n' + '\n'.join(log)
    return extra or [Raw('// ' + '; '.join(log))]


def build_and_verify(unit, root, canary=False, rlimit=None, keep_name=None, _retry=3):
    os.makedirs(BUILD, exist_ok=True)
    gen = generate(unit, root, canary=canary)
    text = '\n'.join(gen.lines) + '\n'
    h = hashlib.sha256(text.encode()).hexdigest()[:20]
    name = keep_name or ('%s%s' % (unit.name, '_canary' if canary else ''))
    # the file Verus reads is private to this generated text (name + hash), written atomically: concurrent checks of different trees
    # (seed sweeps, mutant sweeps, several properties at once) can never verify each other's text; build/<name>.rs is a copy for reading
    os.makedirs(os.path.join(BUILD, 'gen'), exist_ok=True)
    try:        # prune generated files that have not been used for a while (they are re-created on demand)
        now = time.time()
        for fn_ in os.listdir(os.path.join(BUILD, 'gen')):
            fp_ = os.path.join(BUILD, 'gen', fn_)
            if now - os.path.getmtime(fp_) > 6 * 3600:
                os.remove(fp_)
    except OSError:
        pass
    # keyed by unit and text hash only (`keep_name` names the readable copy): a mutant / seed sweep that leaves a unit's text unchanged hits the result of the plain run
    base_name = '%s%s' % (unit.name, '_canary' if canary else '')
    path = os.path.join(BUILD, 'gen', '%s-%s.rs' % (base_name, h))
    cache = os.path.join(BUILD, 'cache', '%s-%s-%s.json' % (base_name, h, rlimit or 'd'))
    import threading
    uniq = '%d.%d' % (os.getpid(), threading.get_ident())
    if not os.path.exists(path):
        tmpf = path + '.%s.tmp' % uniq
        with open(tmpf, 'w') as f:
            f.write(text)
        os.replace(tmpf, path)
    try:
        tmpf = os.path.join(BUILD, name + '.rs.%s.tmp' % uniq)
        with open(tmpf, 'w') as f:
            f.write(text)
        os.replace(tmpf, os.path.join(BUILD, name + '.rs'))
    except OSError:
        pass
    if os.path.exists(cache) and not os.environ.get('VERIF_NOCACHE'):
        try:
            res = json.load(open(cache))
            res['cached'] = True
            if _retry and res.get('summary', {}).get('verification-results', {}).get('encountered-error'):
                extra = _missing_consts(unit, root, res)
                if extra:
                    unit.items = extra + list(unit.items)
                    return build_and_verify(unit, root, canary=canary, rlimit=rlimit, keep_name=keep_name, _retry=int(_retry) - 1)
            return gen, res, path
        except Exception:
            pass
    res = run_verus(path, rlimit=rlimit)
    if rlimit is None and not canary and any(('rlimit' in d.get('message', '') or 'Resource limit' in d.get('message', '')) for d in res.get('diags', [])):
        # slow query: one retry with a larger resource limit before giving up as undecided (never an alarm)
        res = run_verus(path, rlimit=60)
        res['retried_with_rlimit'] = 60
        if any(('rlimit' in d.get('message', '') or 'Resource limit' in d.get('message', '')) for d in res.get('diags', [])):
            # second and last retry (the slowest query of the framework, ptops::setattr, sits near the first retry's limit and is the first to tip over on a harmless edit)
            res = run_verus(path, rlimit=240)
            res['retried_with_rlimit'] = 240
    if _retry and res.get('summary', {}).get('verification-results', {}).get('encountered-error'):
        extra = _missing_consts(unit, root, res)
        if extra:
            unit.items = extra + list(unit.items)
            return build_and_verify(unit, root, canary=canary, rlimit=rlimit, keep_name=keep_name, _retry=int(_retry) - 1)
    res['cached'] = False
    res['sha_generated'] = h
    if res.get('status') != 'tool-error':
        os.makedirs(os.path.dirname(cache), exist_ok=True)
        tmp = cache + '.%s.tmp' % uniq
        json.dump(res, open(tmp, 'w'))
        os.replace(tmp, cache)
    return gen, res, path
