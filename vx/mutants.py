"""Scripted property-breaking edits for the thorough tier (DESIGN Part B, appendix B, revised).  Each edit is applied to a scratch
copy of /repo's `src` (outside /repo and /verif, removed immediately), the property's units are re-verified against it, and the
evidence records killed / survived / undecided.  A surviving mutant never changes the exit code: it documents contract strength."""

S = 'src/api/server/sync_io.rs'
V = 'src/api/vfs/mod.rs'
VS = 'src/api/vfs/sync_io.rs'
P = 'src/passthrough/mod.rs'
IS = 'src/passthrough/inode_store.rs'
T = 'src/transport/mod.rs'
FD = 'src/transport/fusedev/mod.rs'

MUTANTS = {
    'C01': [
        ('oversize-forget-replies', S, """                return Err(Error::InvalidMessage(io::Error::from_raw_os_error(
                    libc::EOVERFLOW,
                )));
            }
            return ctx.reply_error_explicit(io::Error::from_raw_os_error(libc::ENOMEM));""",
         """                return ctx.reply_error_explicit(io::Error::from_raw_os_error(libc::ENOMEM));
            }
            return ctx.reply_error_explicit(io::Error::from_raw_os_error(libc::ENOMEM));"""),
        ('double-reply-unlink', S, """        match self.fs.unlink(ctx.context(), ctx.nodeid(), name) {
            Ok(()) => ctx.reply_ok(None::<u8>, None),""", """        match self.fs.unlink(ctx.context(), ctx.nodeid(), name) {
            Ok(()) => { let _ = ctx.reply_ok(None::<u8>, None); ctx.reply_ok(None::<u8>, None) }"""),
        ('batch-forget-no-bound', S, """            if size
                > (MAX_BUFFER_SIZE + BUFFER_HEADER_SIZE
                    - size_of::<BatchForgetIn>() as u32
                    - size_of::<InHeader>() as u32) as usize
            {""", """            if size > usize::MAX - 1
            {"""),
        ('header-len-without-header', S, "        let len = size_of::<OutHeader>() + data2.len() + data3.len();", "        let len = data2.len() + data3.len();"),
        ('commit-data-writer', S, """                ctx.w
                    .commit(Some(&data_writer.0))
                    .map_err(Error::EncodeMessage)?;""", """                data_writer.0
                    .commit(Some(&ctx.w))
                    .map_err(Error::EncodeMessage)?;"""),
        ('error-sign', S, "            error: -err\n", "            error: err\n"),
        # "every well-formed request of an opcode the protocol requires an answer for produces exactly one" ([C01.<op>.replied] / [.answered])
        ('access-error-swallowed', S, """        match self.fs.access(ctx.context(), ctx.nodeid(), mask) {
            Ok(()) => ctx.reply_ok(None::<u8>, None),
            Err(e) => ctx.reply_error(e),""", """        match self.fs.access(ctx.context(), ctx.nodeid(), mask) {
            Ok(()) => ctx.reply_ok(None::<u8>, None),
            Err(_e) => Ok(0),"""),
        ('remap-failure-unanswered', S, """            error!("fuse: {}", e);
            return ctx.reply_error_explicit(io::Error::from_raw_os_error(libc::EOVERFLOW));""", """            return Err(e);"""),
        ('bmap-invalid-message-unanswered', S, """        match self.fs.bmap(ctx.context(), ctx.nodeid(), block, blocksize) {""",
         """        if blocksize == 0 { return Err(Error::InvalidMessage(io::Error::from_raw_os_error(libc::EINVAL))); }
        match self.fs.bmap(ctx.context(), ctx.nodeid(), block, blocksize) {"""),
    ],
    'C02': [
        ('bytes-to-cstr-drops-nul', 'src/lib.rs', "        Some(pos) => CStr::from_bytes_with_nul(&buf[0..=pos]).map_err(Error::InvalidCString),", "        Some(pos) => CStr::from_bytes_with_nul(&buf[0..=pos + 1]).map_err(Error::InvalidCString),"),
        ('two-cstrs-second-from-first', 'src/api/server/mod.rs', "                return Ok((first, bytes_to_cstr(&buf[pos..])?));", "                return Ok((first, bytes_to_cstr(&buf[pos - 1..])?));"),
        ('flush-swap-fh-owner', S, ".flush(ctx.context(), ctx.nodeid(), fh.into(), lock_owner)", ".flush(ctx.context(), ctx.nodeid(), lock_owner.into(), fh)"),
        ('mkdir-swap-mode-umask', S, ".mkdir(ctx.context(), ctx.nodeid(), name, mode, umask)", ".mkdir(ctx.context(), ctx.nodeid(), name, umask, mode)"),
        ('getattr-drop-flag-test', S, "        let handle = if (flags & GETATTR_FH) != 0 {", "        let handle = if flags != 0 {"),
        ('release-wrong-flags-word', S, "        let flush = release_flags & RELEASE_FLUSH != 0;", "        let flush = flags & RELEASE_FLUSH != 0;"),
        ('rename2-mask-widened', S, "flags & (libc::RENAME_EXCHANGE | libc::RENAME_NOREPLACE | libc::RENAME_WHITEOUT);", "flags & (libc::RENAME_EXCHANGE | libc::RENAME_NOREPLACE | libc::RENAME_WHITEOUT | 8);"),
        ('link-old-is-nodeid', S, ".link(ctx.context(), oldnodeid.into(), ctx.nodeid(), name)", ".link(ctx.context(), ctx.nodeid(), oldnodeid.into(), name)"),
        ('dispatch-readlink-to-statfs', S, "x if x == Opcode::Readlink as u32 => self.readlink(ctx),", "x if x == Opcode::Readlink as u32 => self.statfs(ctx),"),
        ('fsync-datasync-bit', S, "        let datasync = fsync_flags & 0x1 != 0;\n\n        match self\n            .fs\n            .fsync(", "        let datasync = fsync_flags & 0x2 != 0;\n\n        match self\n            .fs\n            .fsync("),
        ('arc-forward-swapped', 'src/api/filesystem/sync_io.rs', "            .fallocate(ctx, inode, handle, mode, offset, length)\n    }\n\n    #[allow(clippy::too_many_arguments)]\n    fn release(", "            .fallocate(ctx, inode, handle, mode, length, offset)\n    }\n\n    #[allow(clippy::too_many_arguments)]\n    fn release("),
        ('arc-readdir-size-offset', 'src/api/filesystem/sync_io.rs', "        self.deref()\n            .readdir(ctx, inode, handle, size, offset, add_entry)", "        self.deref()\n            .readdir(ctx, inode, handle, offset as u32, size as u64, add_entry)"),
    ],
    'C03': [
        ('entry-swap-timeouts', 'src/api/filesystem/mod.rs', "            entry_valid: entry.entry_timeout.as_secs(),\n            attr_valid: entry.attr_timeout.as_secs(),", "            entry_valid: entry.attr_timeout.as_secs(),\n            attr_valid: entry.entry_timeout.as_secs(),"),
        ('open-flags-zero', S, "                    open_flags: opts.bits(),\n                    passthrough: passthrough.unwrap_or_default(),\n                };\n\n                ctx.reply_ok(Some(out), None)", "                    open_flags: 0,\n                    passthrough: passthrough.unwrap_or_default(),\n                };\n\n                ctx.reply_ok(Some(out), None)"),
        ('dirent-pad-4', S, "        .map(|l| l & !7)", "        .map(|l| l & !3)"),
        ('dirent-namelen-plus1', S, "            namelen: d.name.len() as u32,", "            namelen: d.name.len() as u32 + 1,"),
        ('read-len-without-header', S, "                    len: (size_of::<OutHeader>() + count) as u32,", "                    len: count as u32,"),
        ('notify-namelen-with-nul', S, "        entry.namelen = (name_with_null.len() - 1) as u32;", "        entry.namelen = name_with_null.len() as u32;"),
        ('getxattr-count-as-value', S, "            Ok(GetxattrReply::Count(count)) => {\n                let out = GetxattrOut {\n                    size: count,", "            Ok(GetxattrReply::Count(count)) => {\n                let out = GetxattrOut {\n                    size: count + 1,"),
    ],
    'C04': [
        ('fuse-reader-over-half-the-buffer', FD, "            VolatileSlice::with_bitmap(buf.mem.as_mut_ptr(), buf.mem.len(), S::default(), None)", "            VolatileSlice::with_bitmap(buf.mem.as_mut_ptr(), buf.mem.len() / 2, S::default(), None)"),
        ('writer-enum-bytes-written-is-available', T, "            Writer::FuseDev(w) => w.bytes_written(),", "            Writer::FuseDev(w) => w.available_bytes(),"),
        ('writer-enum-write-from-at-offset-dropped', T, "            Writer::VirtioFs(w) => w.write_from_at(src, count, off),", "            Writer::VirtioFs(w) => w.write_from_at(src, count, 0),"),
        ('writer-enum-commit-drops-other', T, "            Writer::FuseDev(w) => w.commit(other),", "            Writer::FuseDev(w) => w.commit(None),"),
        ('writer-enum-write-twice', T, "            Writer::FuseDev(w) => w.write(buf),", "            Writer::FuseDev(w) => { let _ = w.write(buf); w.write(buf) }"),
        ('async-write3-check-omits-data3', 'src/transport/virtiofs/mod.rs', "            self.check_available_space(data.len(), data2.len(), data3.len())?;", "            self.check_available_space(data.len(), data2.len(), 0)?;"),
        ('fdw-space-check-ge', 'src/transport/fusedev/mod.rs', "        if sz > self.available_bytes() {", "        if sz >= self.available_bytes() {"),
        ('fdw-write-vectored-skips-short-slices', 'src/transport/fusedev/mod.rs', "filter(|b| !b.is_empty())", "filter(|b| b.len() > 1)"),
        ('fdw-write-vectored-no-upfront-check', 'src/transport/fusedev/mod.rs', "self.check_available_space(bufs.iter().fold(0, |acc, x| acc + x.len()))?;", "self.check_available_space(0)?;"),
        ('fdw-account-twice', 'src/transport/fusedev/mod.rs', "let new_len = self.buf.len() + count;", "let new_len = self.buf.len() + count + count;"),
        ('fdw-split-child-whole-capacity', 'src/transport/fusedev/mod.rs', "let cap2 = self.buf.capacity() - offset;", "let cap2 = self.buf.capacity();"),
        ('fdw-split-child-overlaps', 'src/transport/fusedev/mod.rs', "Vec::from_raw_parts(ptr.add(offset), len2, cap2)", "Vec::from_raw_parts(ptr.add(len1), len2, cap2)"),
        ('split-at-absolute-offset', T, "other.push_front(front.offset(rem).map_err(Error::VolatileMemoryError)?);", "other.push_front(front.offset(offset).map_err(Error::VolatileMemoryError)?);"),
        ('split-at-short-head', T, ".push_back(front.subslice(0, rem).map_err(Error::VolatileMemoryError)?);", ".push_back(front.subslice(0, rem - 1).map_err(Error::VolatileMemoryError)?);"),
        ('allocate-offers-whole-buffer', T, "FileVolatileSlice::from_volatile_slice(&buf.subslice(0, rem).unwrap())", "FileVolatileSlice::from_volatile_slice(buf)"),
        ('vwriter-space-check-inverted', 'src/transport/virtiofs/mod.rs', "        if len > self.available_bytes() {", "        if len < self.available_bytes() {"),
        ('mark-used-forgets-counter', T, "        self.bytes_consumed = total_bytes_consumed;\n", ""),
        ('mark-used-offset-zero', T, "                self.buffers.push_front(buf.offset(rem).unwrap());", "                self.buffers.push_front(buf.offset(0).unwrap());"),
        ('available-is-capacity', FD, "        self.buf.capacity() - self.buf.len()\n", "        self.buf.capacity()\n"),
        ('commit-order', FD, "let bufs = [IoSlice::new(self.buf.as_slice()), IoSlice::new(o)];\n                writev(self.fd, &bufs)\n            }\n        };\n\n        res.map_err(|e| io::Error::from_raw_os_error(e as i32))", "let bufs = [IoSlice::new(o), IoSlice::new(self.buf.as_slice())];\n                writev(self.fd, &bufs)\n            }\n        };\n\n        res.map_err(|e| io::Error::from_raw_os_error(e as i32))"),
    ],
    'C06': [
        ('pt-rename-newname-ungated', 'src/passthrough/sync_io.rs', "        self.validate_path_component(oldname)?;\n        self.validate_path_component(newname)?;\n", "        self.validate_path_component(oldname)?;\n"),
        ('pt-mknod-gate-result-ignored', 'src/passthrough/sync_io.rs', "        rdev: u32,\n        umask: u32,\n    ) -> io::Result<Entry> {\n        self.validate_path_component(name)?;\n", "        rdev: u32,\n        umask: u32,\n    ) -> io::Result<Entry> {\n        let _ = self.validate_path_component(name);\n"),
        ('vfs-unlink-no-check', VS, "    fn unlink(&self, ctx: &Context, parent: VfsInode, name: &CStr) -> Result<()> {\n        validate_path_component(name)?;\n", "    fn unlink(&self, ctx: &Context, parent: VfsInode, name: &CStr) -> Result<()> {\n"),
        ('dot-only', V, "    bytes.starts_with(CURRENT_DIR_CSTR) || bytes.starts_with(PARENT_DIR_CSTR)", "    bytes.starts_with(CURRENT_DIR_CSTR)"),
        ('vfs-lookup-no-slash-check', VS, "        if name.to_bytes_with_nul().contains(&SLASH_ASCII) {\n            return Err(io::Error::from_raw_os_error(libc::EINVAL));\n        }\n\n        match self.get_real_rootfs(parent)? {\n            (Left(fs), idata) => self.lookup_pseudo(fs, idata, ctx, name),", "        match self.get_real_rootfs(parent)? {\n            (Left(fs), idata) => self.lookup_pseudo(fs, idata, ctx, name),"),
        ('open-inode-any-type', 'src/passthrough/sync_io.rs', "        if !is_safe_inode(data.mode) {\n            Err(ebadf())", "        if false {\n            Err(ebadf())"),
        ('restricted-open-follows-links', P, "        let flags = libc::O_NOFOLLOW | libc::O_CLOEXEC | flags;", "        let flags = libc::O_CLOEXEC | flags;"),
        ('safe-inode-includes-symlinks', 'src/passthrough/util.rs', "    matches!(mode & libc::S_IFMT, libc::S_IFREG | libc::S_IFDIR)", "    matches!(mode & libc::S_IFMT, libc::S_IFREG | libc::S_IFDIR | libc::S_IFLNK)"),
        # 'create-without-excl' moved to C05: since the D28 repair (O_NOFOLLOW always) dropping O_EXCL no longer lets the creating open follow a link (C06 holds), it changes the host call
        ('pt-lookup-no-slash-check', 'src/passthrough/sync_io.rs', "        if name.to_bytes_with_nul().contains(&SLASH_ASCII) {\n            return Err(einval());\n        }\n        self.do_lookup(parent, name)", "        self.do_lookup(parent, name)"),
    ],
    'C17': [
        ('async-mark-after-advance', 'src/transport/virtiofs/mod.rs', "                        self.buffers.mark_dirty(cnt);\n                        self.buffers.mark_used(cnt)?;", "                        self.buffers.mark_used(cnt)?;\n                        self.buffers.mark_dirty(cnt);"),
        ('async-marks-requested-count', 'src/transport/virtiofs/mod.rs', "                        self.buffers.mark_dirty(cnt);", "                        self.buffers.mark_dirty(count);"),
        ('consume-for-write-no-mark', 'src/transport/virtiofs/mod.rs', "self.consume(true, count, f)", "self.consume(false, count, f)"),
        ('consume-marks-count', 'src/transport/mod.rs', "self.mark_dirty(bytes_consumed);", "self.mark_dirty(count);"),
        ('consume-for-read-marks', 'src/transport/mod.rs', "self.consume(false, count, f)", "self.consume(true, count, f)"),
        ('mark-dirty-wrong-offset', 'src/transport/mod.rs', "local_buf.bitmap().mark_dirty(0, local_buf.len());", "local_buf.bitmap().mark_dirty(1, local_buf.len());"),
        ('write-from-bypasses-marking', 'src/transport/virtiofs/mod.rs', ".consume_for_write(count, |bufs| src.read_vectored_volatile(bufs))", ".consume_for_read(count, |bufs| src.read_vectored_volatile(bufs))"),
        ('read-to-marks', 'src/transport/mod.rs', ".consume_for_read(count, |bufs| dst.write_vectored_volatile(bufs))", ".consume_for_write(count, |bufs| dst.write_vectored_volatile(bufs))"),
    ],
    'C20': [
        ('writer-enum-async-write2-swapped', T, "            Writer::FuseDev(w) => w.async_write2(data, data2).await,", "            Writer::FuseDev(w) => w.async_write2(data2, data).await,"),
        ('writer-enum-async-commit-is-sync-commit', T, "            Writer::VirtioFs(w) => w.async_commit(other).await,", "            Writer::VirtioFs(w) => w.commit(other),"),
        ('async-fallocate-swap', 'src/api/server/async_io.rs', ".async_fallocate(ctx.context(), ctx.nodeid(), fh.into(), mode, offset, length)", ".async_fallocate(ctx.context(), ctx.nodeid(), fh.into(), mode, length, offset)"),
        ('async-dispatch-fsync-to-fsyncdir', 'src/api/server/async_io.rs', "x if x == Opcode::Fsync as u32 => self.async_fsync(ctx).await,", "x if x == Opcode::Fsync as u32 => self.async_fsyncdir(ctx).await,"),
        ('async-dispatch-setlkw-to-setlk', 'src/api/server/async_io.rs', "x if x == Opcode::Setlkw as u32 => self.setlkw(ctx),", "x if x == Opcode::Setlkw as u32 => self.setlk(ctx),"),
        ('async-error-sign', 'src/api/server/async_io.rs', "            error: -err\n                .raw_os_error()", "            error: err\n                .raw_os_error()"),
        ('async-read-len-without-header', 'src/api/server/async_io.rs', "len: (size_of::<OutHeader>() + count) as u32,", "len: count as u32,"),
        ('async-write-owner-wrong-flags-word', 'src/api/server/async_io.rs', "let owner = if fuse_flags & WRITE_LOCKOWNER != 0 {", "let owner = if flags & WRITE_LOCKOWNER != 0 {"),
        ('async-no-id-remap', 'src/api/server/async_io.rs', "        if let Err(e) = self.remap_ctx_ids(&mut ctx) {\n            if ctx.in_header.opcode", "        if let Err(e) = Ok::<(), Error>(()) {\n            if ctx.in_header.opcode"),
        ('async-enosys-as-einval', 'src/api/server/async_io.rs', "ctx.async_reply_error(io::Error::from_raw_os_error(libc::ENOSYS))", "ctx.async_reply_error(io::Error::from_raw_os_error(libc::EINVAL))"),
        ('async-arc-fsyncdir-to-fsync', 'src/api/filesystem/async_io.rs', "        self.deref().async_fsyncdir(ctx, inode, datasync, handle)", "        self.deref().async_fsync(ctx, inode, datasync, handle)"),
        ('async-arc-getattr-drops-handle', 'src/api/filesystem/async_io.rs', "        self.deref().async_getattr(ctx, inode, handle)", "        self.deref().async_getattr(ctx, inode, None)"),
        ('async-vfs-setattr-ids-not-inward', 'src/api/vfs/async_io.rs', "                self.remap_attr_id(idata.fs_idx(), false, &mut attr);\n                fs.async_setattr", "                fs.async_setattr"),
        ('async-vfs-fsync-to-fsyncdir', 'src/api/vfs/async_io.rs', "(Right(fs), idata) => fs.async_fsync(ctx, idata.ino(), datasync, handle).await,", "(Right(fs), idata) => fs.async_fsyncdir(ctx, idata.ino(), datasync, handle).await,"),
        ('async-write-from-at-window-at-start', 'src/transport/fusedev/mod.rs', "FileVolatileBuf::from_raw_ptr(self.buf.as_mut_ptr().add(self.buf.len()), 0, count)", "FileVolatileBuf::from_raw_ptr(self.buf.as_mut_ptr(), 0, count)"),
        ('async-commit-ungated', 'src/transport/fusedev/mod.rs', "        pub async fn async_commit(&mut self, other: Option<&Writer<'a, S>>) -> io::Result<usize> {\n            if !self.buffered {\n                return Ok(0);\n            }\n", "        pub async fn async_commit(&mut self, other: Option<&Writer<'a, S>>) -> io::Result<usize> {\n"),
    ],
    'C15': [
        ('release-ignores-inode', 'src/passthrough/mod.rs', "if e.get().inode == inode {", "if e.get().inode == inode || e.get().inode != inode {"),
        ('do-release-keeps-cookie', 'src/passthrough/mod.rs', "        self.handle_map.release(handle, inode)?;\n        self.handle_map.remove_cookie(handle);", "        self.handle_map.release(handle, inode)?;"),
        ('get-without-inode-filter', 'src/passthrough/mod.rs', "            .filter(|hd| hd.inode == inode)\n", ""),
        ('destroy-keeps-handles', 'src/passthrough/sync_io.rs', "        self.handle_map.clear();\n        self.inode_map.clear();", "        self.inode_map.clear();"),
        ('open-counter-not-advanced', 'src/passthrough/sync_io.rs', "        let handle = self.next_handle.fetch_add(1, Ordering::Relaxed);\n        self.handle_map.insert(handle, data);\n\n        let mut opts", "        let handle = self.next_handle.fetch_add(0, Ordering::Relaxed);\n        self.handle_map.insert(handle, data);\n\n        let mut opts"),
        ('create-handle-under-parent', 'src/passthrough/sync_io.rs', "HandleData::new(entry.inode, file, args.flags);", "HandleData::new(parent, file, args.flags);"),
    ],
    'C09': [
        ('lookup-resurrects-zero', 'src/passthrough/mod.rs', "                    if curr == 0 {\n                        continue 'search;\n                    }\n", ""),
        ('lookup-no-reprobe-under-lock', 'src/passthrough/mod.rs', 'match InodeMap::get_alt_locked(inodes.deref(), &id, handle_opt.as_ref()) {\n                Some(data) => {', 'match None::<Arc<InodeData>> {\n                Some(data) => {'),
        ('lookup-no-increment', 'src/passthrough/mod.rs', 'let new = curr.saturating_add(1);', 'let new = curr;'),
        ('forget-remove-at-le-1', 'src/passthrough/mod.rs', "                    if new == 0 {", "                    if new <= 1 {"),
    ],
    'C19': [
        ('restore-swaps-int-ext', 'src/api/vfs/mod.rs', ".map(|m| m.map(|s| (s.internal_id, s.external_id, s.range)))", ".map(|m| m.map(|s| (s.external_id, s.internal_id, s.range)))"),
        ('restore-next-super-plus1', 'src/api/vfs/mod.rs', "self.next_super.store(state.next_super, Ordering::SeqCst);", "self.next_super.store(state.next_super.wrapping_add(1), Ordering::SeqCst);"),
        ('restore-inverts-no-open', 'src/api/vfs/mod.rs', "                no_open: state.no_open,", "                no_open: !state.no_open,"),
        ('restore-mount-fresh-index', 'src/api/vfs/mod.rs', "        let _guard = self.lock.lock().unwrap();\n        self.insert_mount_locked(fs, entry, fs_idx, path)\n    }", "        let _guard = self.lock.lock().unwrap();\n        let fs_idx = self.allocate_fs_idx()?;\n        self.insert_mount_locked(fs, entry, fs_idx, path)\n    }"),
        ('v1-default-wrong-length', 'src/api/vfs/mod.rs', "            vec![None; super::MAX_VFS_INDEX]", "            vec![None; super::MAX_VFS_INDEX - 1]"),
        ('pseudo-restore-loses-next-inode', 'src/api/pseudo_fs.rs', "            self.next_inode.store(state.next_inode, Ordering::Relaxed);\n", "\n"),
        ('pseudo-restore-child-under-root', 'src/api/pseudo_fs.rs', "let parent = inode_map.get_mut(&inode.parent).ok_or_else(|| {", "let parent = inode_map.get_mut(&ROOT_ID).ok_or_else(|| {"),
    ],
    'C05': [
        ('mkdir-ignores-umask', 'src/passthrough/sync_io.rs', 'libc::mkdirat(file.as_raw_fd(), name.as_ptr(), mode & !umask)', 'libc::mkdirat(file.as_raw_fd(), name.as_ptr(), mode)'),
        ('symlink-swaps-target-name', 'src/passthrough/sync_io.rs', 'libc::symlinkat(linkname.as_ptr(), file.as_raw_fd(), name.as_ptr())', 'libc::symlinkat(name.as_ptr(), file.as_raw_fd(), linkname.as_ptr())'),
        ('rmdir-without-removedir', 'src/passthrough/sync_io.rs', 'self.do_unlink(parent, name, libc::AT_REMOVEDIR)', 'self.do_unlink(parent, name, 0)'),
        ('fsync-ignores-datasync', 'src/passthrough/util.rs', '        if datasync {\n            libc::fdatasync(fd.as_raw_fd())', '        if false {\n            libc::fdatasync(fd.as_raw_fd())'),
        ('utimens-omits-requested-atime', 'src/passthrough/sync_io.rs', 'tvs[0].tv_nsec = attr.st_atime_nsec;', 'tvs[0].tv_nsec = libc::UTIME_OMIT;'),
        ('create-without-caller-credentials', 'src/passthrough/sync_io.rs', '            let (_uid, _gid) = set_creds(ctx.uid, ctx.gid)?;\n\n            let flags = self.get_writeback_open_flags(args.flags as i32);', '            let flags = self.get_writeback_open_flags(args.flags as i32);'),
        ('scoped-cred-drop-restores-wrong-id', 'src/passthrough/mod.rs', 'libc::syscall($syscall_nr, -1, 0, -1)', 'libc::syscall($syscall_nr, -1, 1, -1)'),
        ('statfs-wrong-descriptor', 'src/passthrough/sync_io.rs', 'libc::fstatvfs64(file.as_raw_fd(), out.as_mut_ptr())', 'libc::fstatvfs64(self.proc_self_fd.as_raw_fd(), out.as_mut_ptr())'),
        ('getxattr-count-query-returns-value', 'src/passthrough/sync_io.rs', '        if size == 0 {\n            Ok(GetxattrReply::Count(res as u32))', '        if false {\n            Ok(GetxattrReply::Count(res as u32))'),
    ],
    'C06x': [],
    'C07': [
        ('index-shift-48', V, "const VFS_INDEX_SHIFT: u8 = 56;", "const VFS_INDEX_SHIFT: u8 = 48;"),
        ('ignore-vacancy', V, "        if let Some(fs) = &superblocks[fs_idx as usize] {\n            return Ok(fs.clone());\n        }\n\n        Err(Error::from_raw_os_error(libc::ENOENT))", "        if let Some(fs) = &superblocks[fs_idx as usize] {\n            return Ok(fs.clone());\n        }\n        if let Some(fs) = &superblocks[1] {\n            return Ok(fs.clone());\n        }\n\n        Err(Error::from_raw_os_error(libc::ENOENT))"),
        ('backend-gets-vfs-ino', VS, "            (Right(fs), idata) => fs.unlink(ctx, idata.ino(), name),", "            (Right(fs), idata) => fs.unlink(ctx, idata.into(), name),"),
        ('link-cross-check-dropped', VS, "        let (root, idata_old) = self.get_real_rootfs(inode)?;\n        let (_, idata_new) = self.get_real_rootfs(newparent)?;\n\n        if idata_old.fs_idx() != idata_new.fs_idx() {\n            return Err(Error::from_raw_os_error(libc::EINVAL));\n        }", "        let (root, idata_old) = self.get_real_rootfs(inode)?;\n        let (_, idata_new) = self.get_real_rootfs(newparent)?;"),
        ('readdir-ino-not-converted', VS, "                    let new_ino = self.convert_inode(idata.fs_idx(), dir_entry.ino)?;\n                    dir_entry.ino = new_ino;", "                    let new_ino = self.convert_inode(0, dir_entry.ino)?;\n                    dir_entry.ino = new_ino;"),
    ],
    'C08': [
        ('lookup-no-increment', 'src/passthrough/mod.rs', 'let new = curr.saturating_add(1);', 'let new = curr;'),
        ('lookup-insert-two-refs', 'src/passthrough/mod.rs', 'Arc::new(InodeData::new(inode, handle, 1, id, st.st.st_mode)),', 'Arc::new(InodeData::new(inode, handle, 2, id, st.st.st_mode)),'),
        ('lookup-locked-add-two', 'src/passthrough/mod.rs', 'data.refcount.fetch_add(1, Ordering::Relaxed);', 'data.refcount.fetch_add(2, Ordering::Relaxed);'),
        ('lookup-wrong-found', 'src/passthrough/mod.rs', 'found = Some(data.inode);', 'found = Some(parent);'),
        ('alloc-forgets-number', 'src/passthrough/mod.rs', 'Ok(InodeMap::get_inode_locked(inodes, id, handle_opt)\n                .unwrap_or_else(|| self.next_inode.fetch_add(1, Ordering::Relaxed)))', 'Ok(self.next_inode.fetch_add(1, Ordering::Relaxed))'),
        ('unique-ino-shift', 'src/passthrough/util.rs', 'Ok((unique_id as u64) << 47 | inode)', 'Ok((unique_id as u64) << 46 | inode)'),
        ('readdirplus-forgets-st-ino', 'src/passthrough/sync_io.rs', 'let ino = entry.inode;\n            dir_entry.ino = entry.attr.st_ino;', 'let ino = entry.attr.st_ino;\n            dir_entry.ino = ino;'),
        ('readdir-forgets-two', 'src/passthrough/sync_io.rs', 'self.forget_one(&mut inodes, entry.inode, 1);', 'self.forget_one(&mut inodes, entry.inode, 2);'),
        ('root-not-exempt', P, "        if inode == fuse::ROOT_ID {\n            return;\n        }\n\n        if let Some(data) = inodes.get(&inode) {", "        if let Some(data) = inodes.get(&inode) {"),
        ('wrapping-sub', P, "let new = curr.saturating_sub(count);", "let new = curr.wrapping_sub(count);"),
        ('remove-at-le-1', P, "                    if new == 0 {\n                        // We just removed", "                    if new <= 1 {\n                        // We just removed"),
        ('keep-mapping-inverted', P, "let keep_mapping = !self.cfg.use_host_ino || data.id.ino > MAX_HOST_INO;", "let keep_mapping = self.cfg.use_host_ino || data.id.ino > MAX_HOST_INO;"),
        ('remove-drops-by-id-when-keeping', IS, "        if remove_data_only {\n", "        if remove_data_only {\n            if let Some(d) = data.as_ref() { self.by_id.remove(&d.id); }\n"),
    ],
    'C12': [
        ('pt-writeback-by-config', P, "        let writeback = self.writeback.load(Ordering::Relaxed);", "        let writeback = self.cfg.writeback;"),
        ('overlay-open-writeback-by-config', 'src/overlayfs/sync_io.rs', """        flags |= libc::O_NOFOLLOW;

        if self.writeback.load(Ordering::Relaxed) {""", """        flags |= libc::O_NOFOLLOW;

        if self.config.writeback {"""),
        ('overlay-create-writeback-by-config', 'src/overlayfs/sync_io.rs', """        flags &= !libc::O_DIRECT;
        if self.writeback.load(Ordering::Relaxed) {""", """        flags &= !libc::O_DIRECT;
        if self.config.writeback {"""),
        ('overlay-init-killpriv-unconditional', 'src/overlayfs/sync_io.rs', """        if (!self.config.do_import || self.config.killpriv_v2)
            && capable.contains(FsOptions::HANDLE_KILLPRIV_V2)
        {""", """        if !self.config.do_import || self.config.killpriv_v2
        {"""),
        ('enabled-is-want', S, "                let enabled = capable & want;", "                let enabled = want;"),
        ('flags2-from-capable', S, "                    flags2: (enabled_flags >> 32) as u32,", "                    flags2: (capable.bits() >> 32) as u32,"),
        ('size-thresholds-swapped', S, "                if minor < KERNEL_MINOR_VERSION_INIT_OUT_SIZE {", "                if minor < KERNEL_MINOR_VERSION_INIT_22_OUT_SIZE {"),
        ('ext-kept-without-payload', S, "                flags_u64 &= !FsOptions::INIT_EXT.bits();", "                flags_u64 &= !0;"),
        ('no-ext-marker', S, "                    out.flags |= FsOptions::INIT_EXT.bits() as u32;", "                    out.flags |= 0;"),
        ('vfs-second-init-allowed', VS, "        if self.initialized() {\n            error!(\"vfs is already initialized\");\n            return Err(Error::from_raw_os_error(libc::EINVAL));\n        }\n", ""),
        ('pt-killpriv-wrong-capability', 'src/passthrough/sync_io.rs', "            && capable.contains(FsOptions::HANDLE_KILLPRIV_V2)", "            && capable.contains(FsOptions::HANDLE_KILLPRIV)"),
        ('pt-dax-unconditional', 'src/passthrough/sync_io.rs', "        if capable.contains(FsOptions::PERFILE_DAX) {", "        if true {"),
        ('pt-no-opendir-not-requested', 'src/passthrough/sync_io.rs', "            opts |= FsOptions::ZERO_MESSAGE_OPENDIR;\n", "            \n"),
        ('vfs-writeback-not-removed', VS, "                n_opts.out_opts.remove(FsOptions::WRITEBACK_CACHE);", "                n_opts.out_opts.remove(FsOptions::ASYNC_DIO);"),
    ],
    'C14': [
        ('remap-le', V, "    if value >= from_base && value - from_base < range {", "    if value >= from_base && value - from_base <= range {"),
        ('ctx-direction-swapped', V, "            ctx.uid = remap_id(ctx.uid, external_id, internal_id, range);", "            ctx.uid = remap_id(ctx.uid, internal_id, external_id, range);"),
        ('convert-entry-skips-gid', V, "                entry.attr.st_gid = remap_id(entry.attr.st_gid, internal_id, external_id, range);", "                entry.attr.st_gid = entry.attr.st_gid;"),
        ('setattr-forwards-external', VS, "                self.remap_attr_id(idata.fs_idx(), false, &mut attr);", "                self.remap_attr_id(idata.fs_idx(), true, &mut attr);"),
        ('per-mount-index-zero', V, "            .get(fs_idx as usize)\n", "            .get(0usize)\n"),
    ],
    'C16': [
        ('skip-keeps-match', 'src/passthrough/sync_io.rs', "            cur += target_reclen;\n            buf.drain(..cur);", "            buf.drain(..cur);"),
        ('dotdot-listed', 'src/passthrough/sync_io.rs', "let res = if name.starts_with(CURRENT_DIR_CSTR) || name.starts_with(PARENT_DIR_CSTR) {", "let res = if name.starts_with(CURRENT_DIR_CSTR) {"),
        ('ino-as-cookie', 'src/passthrough/sync_io.rs', "                        offset: dirent64.d_off as u64,", "                        offset: dirent64.d_ino,"),
        ('continue-after-full', 'src/passthrough/sync_io.rs', "                Ok(0) => break,\n                Ok(_) => rem", "                Ok(_) => rem"),
        ('err-after-entries', 'src/passthrough/sync_io.rs', "Err(e) if rem.len() == orig_rem_len => return Err(e),", "Err(e) => return Err(e),"),
        ('false-eof-last-of-batch', 'src/passthrough/sync_io.rs', "                        found = true;\n                        if !buf.is_empty() {\n                            break;\n                        }", "                        found = true;\n                        break;"),
        ('cached-cookie-inexact', 'src/passthrough/sync_io.rs', ".is_some_and(|cookie| cookie == offset)", ".is_some_and(|cookie| cookie <= offset)"),
        ('seek-off-by-one', 'src/passthrough/sync_io.rs', "libc::lseek64(dir.as_raw_fd(), offset as libc::off64_t, libc::SEEK_SET)", "libc::lseek64(dir.as_raw_fd(), offset as libc::off64_t + 1, libc::SEEK_SET)"),
        ('ok0-after-partial', S, "        if let Some(entry) = entry {\n            cursor.write_all(EntryOut::from(entry).as_slice())?;\n        }\n", "        if let Some(entry) = entry {\n            cursor.write_all(EntryOut::from(entry).as_slice())?;\n            if total_len > 1024 { return Ok(0); }\n        }\n"),
        ('readdir-limit-plus-128', S, "&mut |d, e| add_dirent(&mut cursor, size, d, Some(e)),", "&mut |d, e| add_dirent(&mut cursor, size + 128, d, Some(e)),"),
    ],
    'C18': [
        ('bound-ge', P, "            Opcode::Write => {\n                if size + offset > file_size {", "            Opcode::Write => {\n                if size + offset >= file_size {"),
        ('punch-no-bound', P, "                    0 | libc::FALLOC_FL_PUNCH_HOLE | libc::FALLOC_FL_ZERO_RANGE => {\n                        if size + offset > file_size {\n                            return Err(eperm());\n                        }\n                    }", "                    0 | libc::FALLOC_FL_PUNCH_HOLE | libc::FALLOC_FL_ZERO_RANGE => {}"),
        ('collapse-allowed', P, "                    libc::FALLOC_FL_COLLAPSE_RANGE | libc::FALLOC_FL_INSERT_RANGE => {", "                    libc::FALLOC_FL_INSERT_RANGE => {"),
        ('no-overflow-check', P, "        if offset.checked_add(size).is_none() {", "        if false {"),
        ('open-trunc-only-readonly-refused', 'src/passthrough/sync_io.rs', "        } else if self.seal_size.load(Ordering::Relaxed) && flags & libc::O_TRUNC != 0 {", "        } else if self.seal_size.load(Ordering::Relaxed) && flags & libc::O_TRUNC != 0 && flags & libc::O_ACCMODE == libc::O_RDONLY {"),
        ('append-checked-at-offset', 'src/passthrough/sync_io.rs', "            let offset = if flags & libc::O_APPEND as u32 != 0 {", "            let offset = if false {"),
        ('write-checked-at-zero', 'src/passthrough/sync_io.rs', "            self.seal_size_check(Opcode::Write, st.st_size as u64, offset, size as u64, 0)?;", "            self.seal_size_check(Opcode::Write, st.st_size as u64, 0, size as u64, 0)?;"),
        ('setattr-gate-only-without-handle', 'src/passthrough/sync_io.rs', "        if valid.contains(SetattrValid::SIZE) && self.seal_size.load(Ordering::Relaxed) {", "        if valid.contains(SetattrValid::SIZE) && handle.is_none() && self.seal_size.load(Ordering::Relaxed) {"),
        ('fallocate-mode-not-checked', 'src/passthrough/sync_io.rs', "                length,\n                mode as i32,\n            )?;", "                length,\n                0,\n            )?;"),
    ],
}

# overlay units (C10 / C11): the mutants proposed and tried by the sub-agent that built them; the two whose edit site was rewritten by
# the fix c4f2dab are reported as not-applicable by the sweep
from vx import ovl_mutants_proposed as _OVL
MUTANTS.update({k: list(v) for k, v in _OVL.MUTANTS.items()})

# overlay inode numbers (unit ovl_inodes)
_OI = 'src/overlayfs/inode_store.rs'
MUTANTS.setdefault('C10', []).extend([
    ('ovl-alloc-ignores-delayed-removals', _OI, "            if !self.inodes.contains_key(&ino) && !self.deleted.contains_key(&ino) {", "            if !self.inodes.contains_key(&ino) {"),
    ('ovl-alloc-wraps-to-zero', _OI, "                ino = 1;", "                ino = 0;"),
    ('ovl-remove-delays-when-unreferenced', _OI, "                if v.lookups.load(Ordering::Relaxed) > 0 {", "                if v.lookups.load(Ordering::Relaxed) == 0 {"),
    ('ovl-reserved-number-ignored', _OI, "            Some(v) => Ok(*v),", "            Some(_v) => self.alloc_unique_inode(),"),
])

# overlay RENAME (unit ovl_ops, the frame every operation has: no lower layer is touched; killed by `ovl_ops.rename.upper`)
MUTANTS.setdefault('C10', []).append(
    ('ovl-rename-in-lower-layer', 'src/overlayfs/sync_io.rs', "        Err(Error::from_raw_os_error(libc::EXDEV))\n    }\n\n    fn mknod(",
     "        if let Some(l) = self.lower_layers.first() {\n            return l.rename(_ctx, _olddir, _odlname, _newdir, _newname, _flags);\n        }\n        Err(Error::from_raw_os_error(libc::EXDEV))\n    }\n\n    fn mknod("))

# the Reader side and the virtio-fs constructors / wrappers (unit readerrd; proposed and tried by the sub-agent that built it)
_VV = 'src/transport/virtiofs/mod.rs'
MUTANTS.setdefault('C04', []).extend([
    ('reader-read-no-reslice', T, "                rem = &mut rem[copy_len..];\n                total += copy_len;", "                rem = &mut rem[0..];\n                total += copy_len;"),
    ('reader-read-half-segment', T, "copy_nonoverlapping(buf.as_ptr() as *const u8, rem.as_mut_ptr(), copy_len);", "copy_nonoverlapping(buf.as_ptr() as *const u8, rem.as_mut_ptr(), copy_len / 2);"),
    ('reader-read-offers-half', T, "self.buffers.consume_for_read(buf.len(), |bufs| {\n            let mut rem = buf;", "self.buffers.consume_for_read(buf.len() / 2, |bufs| {\n            let mut rem = buf;"),
    ('reader-read-obj-window-too-long', T, "::std::slice::from_raw_parts_mut(obj.as_mut_ptr() as *mut u8, size_of::<T>())", "::std::slice::from_raw_parts_mut(obj.as_mut_ptr() as *mut u8, size_of::<T>() + 1)"),
    ('reader-read-obj-ignores-short-read', T, "        self.read_exact(buf)?;\n", "        let _ = self.read_exact(buf);\n"),
    ('virtio-wv-no-upfront-check', _VV, "self.check_available_space(bufs.iter().fold(0, |acc, x| acc + x.len()), 0, 0)?;", "self.check_available_space(0, 0, 0)?;"),
    ('virtio-reader-takes-writable-half', _VV, "        for desc in desc_chain.readable() {", "        for desc in desc_chain.writable() {"),
    ('virtio-writer-starts-consumed', _VV, "        Ok(VirtioFsWriter {\n            buffers: IoBuffers {\n                buffers,\n                bytes_consumed: 0,", "        Ok(VirtioFsWriter {\n            buffers: IoBuffers {\n                buffers,\n                bytes_consumed: 1,"),
])
MUTANTS.setdefault('C17', []).extend([
    ('reader-read-marks-dirty', T, "self.buffers.consume_for_read(buf.len(), |bufs| {\n            let mut rem = buf;", "self.buffers.consume_for_write(buf.len(), |bufs| {\n            let mut rem = buf;"),
    ('virtio-wv-count-not-updated', _VV, "            count += self.write(buf)?;", "            let _n = self.write(buf)?;"),
    ('virtio-write-obj-drops-first-byte', _VV, "        self.write_all(val.as_slice())", "        self.write_all(&val.as_slice()[1..])"),
])

# the pseudo file system (unit pseudofs; proposed and tried by the sub-agent that built it)
_PF = 'src/api/pseudo_fs.rs'
MUTANTS.setdefault('C07', []).extend([
    ('pseudo-mount-under-root', _PF, "let new_node = self.create_inode(name, inode);", "let new_node = self.create_inode(name, &self.root_inode);"),
    ('pseudo-walk-missing-is-some', _PF, "return Ok(None);", "return Ok(Some(inode.ino));"),
    ('pseudo-new-inode-reuses-number', _PF, "self.next_inode.fetch_add(1, Ordering::Relaxed)", "self.next_inode.fetch_add(0, Ordering::Relaxed)"),
    ('pseudo-create-not-linked', _PF, "        self.insert_inode(inode.clone());\n        parent.insert_child(inode.clone());", "        self.insert_inode(inode.clone());"),
    ('pseudo-remove-inode-wrong-key', _PF, "hashmap.remove(&inode.ino);", "hashmap.remove(&inode.parent);"),
    ('pseudo-lookup-dotdot-is-self', _PF, "ino = pinode.parent;", "ino = pinode.ino;"),
    ('pseudo-entry-not-dir', _PF, "attr.mode = libc::S_IFDIR | libc::S_IRWXU", "attr.mode = libc::S_IFREG | libc::S_IRWXU"),
    ('pseudo-first-number-is-root', _PF, "const PSEUDOFS_NEXT_INODE: u64 = 2;", "const PSEUDOFS_NEXT_INODE: u64 = 1;"),
])
MUTANTS.setdefault('C16', []).extend([
    ('pseudo-readdir-skip-on-full', _PF, "Ok(0) => break,", "Ok(0) => next += 1,"),
    ('pseudo-readdir-resume-skips-one', _PF, "children[offset as usize..]", "children[offset as usize + 1..]"),
    ('pseudo-readdir-wrong-ino', _PF, "                ino: child.ino,\n                offset: next,", "                ino: inode.ino,\n                offset: next,"),
    ('pseudo-readdir-err-swallowed', _PF, "Err(r) => return Err(r),", "Err(_) => break,"),
    ('pseudo-readdir-ignores-offset', _PF, "self.do_readdir(inode, size, offset, add_entry)", "self.do_readdir(inode, size, 0, add_entry)"),
    ('pseudo-readdir-offset-added-before-check', _PF, "        let children = inode.children.load();\n\n        if offset >= children.len() as u64 {\n            return Ok(());\n        }\n        // `offset` comes from the client: only add to it once it is known to be an index.\n        let mut next = offset + 1;\n", "        let mut next = offset + 1;\n        let children = inode.children.load();\n\n        if offset >= children.len() as u64 {\n            return Ok(());\n        }\n"),
    ('pseudo-readdir-foreign-type', _PF, "                type_: 0,", "                type_: 8,"),
])

# passthrough async twins (unit asyncpt)
_AP = 'src/passthrough/async_io.rs'
MUTANTS.setdefault('C20', []).extend([
    ('pt-async-fsyncdir-is-fsync', _AP, "        self.fsyncdir(ctx, inode, datasync, handle)", "        self.fsync(ctx, inode, datasync, handle)"),
    ('pt-async-fallocate-swapped', _AP, "        self.fallocate(ctx, inode, handle, mode, offset, length)", "        self.fallocate(ctx, inode, handle, mode, length, offset)"),
    ('pt-async-open-drops-handle', _AP, "        Ok((handle, opts))", "        let _ = handle; Ok((None, opts))"),
])

# statx -> stat64 (unit ptstatx)
_SX = 'src/passthrough/statx.rs'
MUTANTS.setdefault('C05', []).extend([
    ('statx-mtime-from-ctime', _SX, "            st.st_mtime = self.stx_mtime.tv_sec;", "            st.st_mtime = self.stx_ctime.tv_sec;"),
    ('statx-rdev-from-dev', _SX, "            st.st_rdev = makedev(self.stx_rdev_major, self.stx_rdev_minor);", "            st.st_rdev = makedev(self.stx_dev_major, self.stx_dev_minor);"),
    ('statx-mask-any-bit', _SX, "        if self.stx_mask & STATX_BASIC_STATS != 0 {", "        if self.stx_mask != 0 {"),
])

# file handles and mount descriptors (unit fhandle; proposed and tried by the sub-agent that built it)
_FH = 'src/passthrough/file_handle.rs'
_MFD = 'src/passthrough/mount_fd.rs'
MUTANTS.setdefault('C15', []).extend([
    ('fh-probe-fd-leak', _MFD, "            let mount_point_fd = unsafe { File::from_raw_fd(mount_point_fd) };\n", ""),
    ('fh-no-recheck-under-write-lock', _MFD, "if let Some(mount_fd) = mount_fds_locked.get(&mount_id).and_then(Weak::upgrade) {", "if let Some(mount_fd) = None::<Arc<MountFd>> {"),
    ('fh-drop-removes-live-entry', _MFD, "            if let Some(0) = map.get(&self.mount_id).map(Weak::strong_count) {", "            if map.get(&self.mount_id).is_some() {"),
    ('fh-entry-not-inserted', _MFD, "                mount_fds_locked.insert(mount_id, Arc::downgrade(&mount_fd));\n", ""),
])
MUTANTS.setdefault('C05', []).extend([
    ('fh-reopen-no-nofollow', _MFD, "libc::O_RDONLY | libc::O_NOFOLLOW | libc::O_CLOEXEC,", "libc::O_RDONLY | libc::O_CLOEXEC,"),
    ('fh-mount-id-unchecked', _MFD, "        if stx.mnt_id != mount_id {", "        if false {"),
    ('fh-errno-swallowed', _FH, "                _ => return Err(err),", "                _ => return Ok(None),"),
    ('fh-retry-max-buffer', _FH, "let mut c_fh = CFileHandle::new(needed);", "let mut c_fh = CFileHandle::new(MAX_HANDLE_SIZE);"),
    ('fh-mnt-id-dropped', _FH, "            mnt_id: mount_id as MountId,", "            mnt_id: 0,"),
    ('fh-oversize-check-removed', _FH, "        if needed > MAX_HANDLE_SIZE {", "        if false {"),
])

MUTANTS.setdefault('C10', []).extend([
    ('ovl-rmdir-counts-unloaded-dir', 'src/overlayfs/mod.rs', "            self.load_directory(ctx, &node)?;\n            let (count, whiteouts) = node.count_entries_and_whiteout(ctx)?;", "            self.load_directory(ctx, &pnode)?;\n            let (count, whiteouts) = node.count_entries_and_whiteout(ctx)?;"),
])
MUTANTS.setdefault('C01', []).extend([
    ('init-compat-22-reply-split-at-8', S, "                                out.as_slice().split_at(FUSE_COMPAT_22_INIT_OUT_SIZE).0,", "                                out.as_slice().split_at(FUSE_COMPAT_INIT_OUT_SIZE).0,"),
])
MUTANTS.setdefault('C05', []).extend([
    ('pt-lookup-root-dotdot-prefix', P, "name.to_bytes_with_nul().starts_with(PARENT_DIR_CSTR)", "name.to_bytes().starts_with(b\"..\")"),
])

# the overlay live view (unit ovl_view; proposed and tried by the sub-agent that built it) and the reservation clauses behind D24
from vx import ovl_view_mutants_proposed as _OV
for _k, _v in _OV.MUTANTS.items():
    MUTANTS.setdefault(_k, []).extend(_v)
MUTANTS.setdefault('C10', []).extend([
    ('ovl-delayed-removal-keeps-reservation', _OI, "        if let Some(path) = path_removed {\n            self.path_mapping.remove(&path);\n        }\n\n        let removed = match self.inodes.remove(&inode) {", "        let removed = match self.inodes.remove(&inode) {"),
    ('ovl-forget-removes-whatever-has-the-name', 'src/overlayfs/mod.rs', "                    if Arc::ptr_eq(&c, &v) {\n                        p.remove_child(v.name.as_str());\n                    }", "                    let _ = c;\n                    p.remove_child(v.name.as_str());"),
])

# the overlay mutators' view bookkeeping (unit ovl_bk; proposed and tried by the sub-agent that built it)
from vx import ovl_bk_mutants_proposed as _BK
for _k, _v in _BK.MUTANTS.items():
    MUTANTS.setdefault(_k, []).extend(_v)
MUTANTS.setdefault('C10', []).extend([
    ('ovl-insert-child-no-parent-link', 'src/overlayfs/mod.rs', "        *node.parent.lock().unwrap() = Arc::downgrade(self);\n", ""),
])

# file buffers and file traits (unit filebuf; proposed and tried by the sub-agent that built it)
from vx import filebuf_mutants_proposed as _FB
for _k, _v in _FB.MUTANTS.items():
    MUTANTS.setdefault(_k, []).extend(_v)
MUTANTS.setdefault('C04', []).extend([
    ('arc-async-forwarder-calls-itself', 'src/common/file_traits.rs', "            (**self).async_read_at_volatile(buf, offset).await", "            self.async_read_at_volatile(buf, offset).await"),
])

# file transfers above the transports (unit zcstreams; proposed and tried by the sub-agent that built it), incl. mutants of the D29 repair
from vx import zcstreams_mutants_proposed as _ZC
for _k, _v in _ZC.MUTANTS.items():
    MUTANTS.setdefault(_k, []).extend(_v)

# the read side of the overlay (unit ovl_read; proposed and tried by the sub-agent that built it) and the D30 repair
from vx import ovl_read_mutants_proposed as _OR
for _k, _v in _OR.MUTANTS.items():
    MUTANTS.setdefault(_k, []).extend(_v)
MUTANTS.setdefault('C10', []).extend([
    ('ovl-stat64-ignores-every-errno', 'src/overlayfs/mod.rs', "            Ok(v1) => Ok(Some(v1)),\n            Err(e) => match e.raw_os_error() {\n                Some(raw_error) => {\n                    if raw_error == libc::ENOENT || raw_error == libc::ENAMETOOLONG {", "            Ok(v1) => Ok(Some(v1)),\n            Err(e) => match e.raw_os_error() {\n                Some(raw_error) => {\n                    if raw_error != libc::ENOENT || raw_error != libc::ENAMETOOLONG {"),
])

# the D28 repair: the creating open must not be able to follow a link
MUTANTS.setdefault('C06', []).extend([
    ('pt-create-open-without-nofollow', 'src/passthrough/mod.rs', "let flags_excl = flags | libc::O_CREAT | libc::O_EXCL | libc::O_NOFOLLOW;", "let flags_excl = flags | libc::O_CREAT | libc::O_EXCL;"),
])

# the passthrough core (unit ptcore: import / new / destroy, inode and handle objects, the re-open through /proc, statx, readlinkat) and the D31 repair
from vx import ptcore_mutants_proposed as _PC
for _k, _v in _PC.MUTANTS.items():
    MUTANTS.setdefault(_k, []).extend(_v)

MUTANTS.setdefault('C05', []).extend([
    ('create-without-excl', 'src/passthrough/mod.rs', "let flags_excl = flags | libc::O_CREAT | libc::O_EXCL | libc::O_NOFOLLOW;", "let flags_excl = flags | libc::O_CREAT | libc::O_NOFOLLOW;"),
    ('create-records-adjusted-flags', 'src/passthrough/sync_io.rs', "let data = HandleData::new(entry.inode, file, args.flags);", "let data = HandleData::new(entry.inode, file, self.get_writeback_open_flags(args.flags as i32) as u32);"),
])

# the order on file handles, the DAX handlers and the readdir wrappers of the passthrough fs (unit fhcmp); the rest of the transports incl. FuseChannel::get_request (unit transrest)
from vx import fhcmp_mutants_proposed as _FH
from vx import transrest_mutants_proposed as _TR
for _m in (_FH, _TR):
    for _k, _v in _m.MUTANTS.items():
        MUTANTS.setdefault(_k, []).extend(_v)

# src/common/async_file.rs (unit asyncfile) and the D32 repair
from vx import asyncfile_mutants_proposed as _AF
for _src in (_AF.MUTANTS, _AF.MUTANTS_A1_REPAIR):
    for _k, _v in _src.items():
        MUTANTS.setdefault(_k, []).extend(_v)

# ServerUtil::get_message_body (unit msgbody)
MUTANTS.setdefault('C02', []).extend([
    ('msgbody-wrong-header-size', 'src/api/server/mod.rs', "            .checked_sub(size_of::<InHeader>())\n            .and_then(|l| l.checked_sub(sub_hdr_sz))", "            .checked_sub(size_of::<OutHeader>())\n            .and_then(|l| l.checked_sub(sub_hdr_sz))"),
])
MUTANTS.setdefault('C01', []).extend([
    ('msgbody-half-capacity', 'src/api/server/mod.rs', "let mut buf = Vec::<u8>::with_capacity(len);", "let mut buf = Vec::<u8>::with_capacity(len / 2);"),
    ('msgbody-set-len-plus-one', 'src/api/server/mod.rs', "            buf.set_len(len)\n", "            buf.set_len(len + 1)\n"),
])
