"""Proposed entries for vx/mutants.py (property C04, unit filebuf: src/common/file_buf.rs, src/common/file_traits.rs).  Every `old` occurs exactly once in
its file at /repo HEAD (self-test at the bottom: `python3 vx/filebuf_mutants_proposed.py [SRC]`); each mutant was killed in the sub-agent's campaign with
the obligation(s) given in the comment.  The unit's baseline on the unchanged tree are the four obligations of finding F3
(`C04.ftraits.arc.<fn>.ends_in_the_wrapped_object`): compare against them (a mutant is killed when ANOTHER obligation fails)."""
B = 'src/common/file_buf.rs'
T = 'src/common/file_traits.rs'

MUTANTS = {
    'C04': [
        # killed by C04.fbuf.read_slice.exact, C04.fbuf.read_slice.delivered  (defect D3 re-seeded, now for every length)
        ('fbuf-read-slice-writes', B, 'VolatileSlice::read_slice(&self.as_volatile_slice(), buf, addr)', 'VolatileSlice::write_slice(&self.as_volatile_slice(), buf, addr)'),
        # killed by C04.fbuf.offset.view, C04.fbuf.offset.no_wrap
        ('fbuf-offset-keeps-size', B, 'Ok(Self::new(new_addr as *mut u8, new_size))', 'Ok(Self::new(new_addr as *mut u8, self.size))'),
        # killed by C04.fbuf.offset.ok_iff, C04.fbuf.offset.ok_iff_valid
        ('fbuf-offset-clamps', B, 'let new_size = self\n            .size\n            .checked_sub(count)\n            .ok_or(Error::OutOfBounds { addr: new_addr })?;',
         'let new_size = if count > self.size { 0 } else { self.size - count };'),
        # killed by C04.fbuf.as_volatile_slice.view (+ arithmetic underflow)
        ('fbuf-as-volatile-slice-short', B, 'unsafe { VolatileSlice::new(self.as_ptr(), self.len()) }', 'unsafe { VolatileSlice::new(self.as_ptr(), self.len() - 1) }'),
        # killed by C04.fbuf.store.ok_iff, C04.fbuf.store.exact
        ('fbuf-store-addr-plus-one', B, 'VolatileSlice::store(&self.as_volatile_slice(), val, addr, order)', 'VolatileSlice::store(&self.as_volatile_slice(), val, addr + 1, order)'),
        # killed by C04.fbuf.read.ok_iff / .reports / .in_bounds / .exact / .delivered
        ('fbuf-read-ignores-addr', B, 'VolatileSlice::read(&self.as_volatile_slice(), buf, addr)', 'VolatileSlice::read(&self.as_volatile_slice(), buf, 0)'),
        # killed by C04.fbuf.borrow_as_buf.view
        ('fbuf-borrow-as-buf-inited-swapped', B, 'let size = if inited { self.size } else { 0 };', 'let size = if inited { 0 } else { self.size };'),
        # killed by C04.fbuf.set_size.exact, C04.fbuf.set_size.keeps_wf
        ('fbuf-set-size-beyond-cap', B, 'if size <= self.cap {\n            self.size = size;', 'if size >= self.cap {\n            self.size = size;'),
        # killed by C04.fbuf.io_slice_mut.free_part_len, C04.fbuf.io_slice_mut.in_bounds
        ('fbuf-io-slice-mut-cap-bytes', B, 'let sz = self.cap - self.size;', 'let sz = self.cap;'),
        # killed by C04.fbuf.io_slice.initialised_part
        ('fbuf-io-slice-cap-bytes', B, 'slice::from_raw_parts(self.addr as *const u8, self.size)', 'slice::from_raw_parts(self.addr as *const u8, self.cap)'),
        # killed by C04.fbuf.iobuf.bytes_init
        ('fbuf-bytes-init-is-cap', B, 'fn bytes_init(&self) -> usize {\n            self.size', 'fn bytes_init(&self) -> usize {\n            self.cap'),
        # killed by C04.ftraits.read_volatile.kind, C04.ftraits.read_volatile.touched
        ('ftraits-read-volatile-writes', T, 'unsafe { read(self.as_raw_fd(), slice.as_ptr() as *mut c_void, slice.len()) };', 'unsafe { write(self.as_raw_fd(), slice.as_ptr() as *mut c_void, slice.len()) };'),
        # killed by C04.ftraits.read_vectored_volatile.iov, .touched
        ('ftraits-readv-one-entry-less', T, 'unsafe { readv(self.as_raw_fd(), &iovecs[0], iovecs.len() as c_int) };', 'unsafe { readv(self.as_raw_fd(), &iovecs[0], iovecs.len() as c_int - 1) };'),
        # killed by C04.ftraits.read_volatile.result
        ('ftraits-read-volatile-zero-is-error', T, 'slice.len()) };\n\n                if ret >= 0 {', 'slice.len()) };\n\n                if ret > 0 {'),
        # killed by C04.ftraits.read_at_volatile.offset, .touched, .file_offset_range
        ('ftraits-pread-offset-plus-one', T, 'slice.as_ptr() as *mut c_void,\n                        slice.len(),\n                        offset as off64_t,',
         'slice.as_ptr() as *mut c_void,\n                        slice.len(),\n                        (offset + 1) as off64_t,'),
        # killed by C04.ftraits.read_vectored_at_volatile.iov, .touched
        ('ftraits-preadv-one-entry', T, 'preadv64(\n                        self.as_raw_fd(),\n                        &iovecs[0],\n                        iovecs.len() as c_int,',
         'preadv64(\n                        self.as_raw_fd(),\n                        &iovecs[0],\n                        1,'),
        # killed by C04.ftraits.read_vectored_volatile.empty_no_call, C04.ftraits.iov_index_in_bounds
        ('ftraits-readv-empty-check-removed', T, 'if iovecs.is_empty() {\n                    return Ok(0);\n                }\n\n                // Safe because only bytes inside the buffers are accessed and the kernel is\n                // expected to handle arbitrary memory for I/O.\n                let ret = unsafe { readv(',
         'let ret = unsafe { readv('),
        # killed by C04.ftraits.write_at_volatile.fd
        ('ftraits-pwrite-other-fd', T, 'pwrite64(\n                        self.as_raw_fd(),', 'pwrite64(\n                        self.as_raw_fd() + 1,'),
        # killed by C04.ftraits.read_vectored_at_volatile.loop.iov_is_the_slices
        ('ftraits-preadv-iov-base-of-first-slice', T,
         'fn read_vectored_at_volatile(\n                &mut self,\n                bufs: &[FileVolatileSlice],\n                offset: u64,\n            ) -> Result<usize> {\n                let iovecs: Vec<libc::iovec> = bufs\n                    .iter()\n                    .map(|s| libc::iovec {\n                        iov_base: s.as_ptr() as *mut c_void,',
         'fn read_vectored_at_volatile(\n                &mut self,\n                bufs: &[FileVolatileSlice],\n                offset: u64,\n            ) -> Result<usize> {\n                let iovecs: Vec<libc::iovec> = bufs\n                    .iter()\n                    .map(|s| libc::iovec {\n                        iov_base: bufs[0].as_ptr() as *mut c_void,'),
        # killed by C04.ftraits.write_at_volatile.result (+ .offset_beyond_off64, .file_offset_range)
        ('ftraits-failed-pwrite-is-ok-zero', T,
         'offset as off64_t,\n                    )\n                };\n\n                if ret >= 0 {\n                    Ok(ret as usize)\n                } else {\n                    Err(Error::last_os_error())\n                }\n            }\n\n            fn write_vectored_at_volatile(',
         'offset as off64_t,\n                    )\n                };\n\n                if ret >= 0 {\n                    Ok(ret as usize)\n                } else {\n                    Ok(0)\n                }\n            }\n\n            fn write_vectored_at_volatile('),
        # killed by C04.ftraits.read_exact_volatile.loop.each_byte_once_in_order (+ decreases)
        ('ftraits-read-exact-rereads-a-byte', T, 'slice = slice.offset(bytes_read).unwrap();', 'slice = slice.offset(bytes_read - 1).unwrap();'),
        # killed by C04.ftraits.read_exact_at_volatile.loop.file_offset_follows
        ('ftraits-read-exact-at-forgets-offset', T,
         'Ok(0) => return Err(Error::from(ErrorKind::UnexpectedEof)),\n                Ok(n) => {\n                    // Will panic if read_at_volatile read more bytes than we gave it, which would\n                    // be worthy of a panic.\n                    slice = slice.offset(n).unwrap();\n                    offset = offset.checked_add(n as u64).unwrap();',
         'Ok(0) => return Err(Error::from(ErrorKind::UnexpectedEof)),\n                Ok(n) => {\n                    // Will panic if read_at_volatile read more bytes than we gave it, which would\n                    // be worthy of a panic.\n                    slice = slice.offset(n).unwrap();'),
        # killed by C04.ftraits.mutref.read_volatile.ends_in_the_wrapped_object  (the F3 pattern seeded into the sync forwarder)
        ('ftraits-mutref-forwarder-recurses', T, '(**self).read_volatile(slice)', 'self.read_volatile(slice)'),
        # killed by C04.ftraits.write_all_at_volatile.every_byte_once_in_order, .err_prefix (trait-level contract of the forwarded method)
        ('ftraits-mutref-forwards-to-other-method', T, '(**self).write_all_at_volatile(slice, offset)', '(**self).write_all_volatile(slice)'),
        # killed by C04.ftraits.async_read_at_volatile.same_transfer
        ('ftraits-async-read-at-writes', T, 'self.async_read_at(buf, offset).await', 'self.async_write_at(buf, offset).await'),
        # killed by C04.ftraits.async_read_vectored_at_volatile.ops_in_order, .loop.file_offset_follows
        ('ftraits-async-readv-offset-by-wrong-buffer', T,
         'let op2 = self.async_read_at_volatile(bufs[pos + 1], offset);\n                offset += bufs[pos + 1].bytes_total() as u64;\n                let op3 = self.async_read_at_volatile(bufs[pos + 2], offset);\n                offset += bufs[pos + 2].bytes_total() as u64;',
         'let op2 = self.async_read_at_volatile(bufs[pos + 1], offset);\n                offset += bufs[pos].bytes_total() as u64;\n                let op3 = self.async_read_at_volatile(bufs[pos + 2], offset);\n                offset += bufs[pos + 2].bytes_total() as u64;'),
        # killed by C04.ftraits.async_write_vectored_at_volatile.reports
        ('ftraits-async-writev-count-overwritten', T,
         'let res1 = self.async_write_at_volatile(bufs[pos], offset).await;\n                match res1 {\n                    (Ok(cnt), buf) => {\n                        count += cnt;',
         'let res1 = self.async_write_at_volatile(bufs[pos], offset).await;\n                match res1 {\n                    (Ok(cnt), buf) => {\n                        count = cnt;'),
        # killed by C04.ftraits.async_read_vectored_at_volatile.ops_in_order, .buffers_back
        ('ftraits-async-readv-same-buffer-twice', T,
         'let op3 = self.async_read_at_volatile(bufs[pos + 2], offset);\n                let (res1, res2, res3) = join!(op1, op2, op3);',
         'let op3 = self.async_read_at_volatile(bufs[pos + 1], offset);\n                let (res1, res2, res3) = join!(op1, op2, op3);'),
        # killed by C04.ftraits.async_write_vectored_at_volatile.reports (ghost step: precondition of lemma_rep_all_full)
        ('ftraits-async-writev-short-write-ignored', T,
         '                        bufs[pos + 1] = buf;\n                        if cnt < bufs[pos + 1].bytes_total() {\n                            return (Ok(count), bufs);\n                        }\n                    }\n                    (Err(e), _) => return (Err(e), bufs),\n                }\n            } else if bufs.len() - pos == 1 {\n                let res1 = self.async_write_at_volatile',
         '                        bufs[pos + 1] = buf;\n                    }\n                    (Err(e), _) => return (Err(e), bufs),\n                }\n            } else if bufs.len() - pos == 1 {\n                let res1 = self.async_write_at_volatile'),
        # killed by C04.ftraits.async_read_vectored_at_volatile.buffers_back (+ loop invariant)
        ('ftraits-async-readv-result-in-wrong-slot', T,
         '                        bufs[pos + 3] = buf;\n                        if cnt < bufs[pos + 3].bytes_total() {\n                            return (Ok(count), bufs);\n                        }\n                    }\n                }\n                pos += 4;\n            }\n\n            if bufs.len() - pos == 3 {\n                let op1 = self.async_read_at_volatile',
         '                        bufs[pos] = buf;\n                        if cnt < bufs[pos + 3].bytes_total() {\n                            return (Ok(count), bufs);\n                        }\n                    }\n                }\n                pos += 4;\n            }\n\n            if bufs.len() - pos == 3 {\n                let op1 = self.async_read_at_volatile'),
    ],
}

# SURVIVOR (documented, not proposed): `Ok(0) => return Err(WriteZero)` removed from write_all_at_volatile - the loop then spins on a file that accepts
# nothing; the contracts are partial-correctness statements (the Interrupted retry has no variant), liveness is not covered.

if __name__ == '__main__':
    import sys
    root = sys.argv[1] if len(sys.argv) > 1 else '/repo'
    bad = 0
    for (name, f, old, new) in MUTANTS['C04']:
        n = open(root + '/' + f).read().count(old)
        if n != 1 or old == new:
            bad += 1
            print('NOT UNIQUE (%d): %s' % (n, name))
    print('%d mutants, %d not applicable' % (len(MUTANTS['C04']), bad))
