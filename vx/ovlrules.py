"""Rewrite rules introduced for the overlay units (ovl_layer, ovl_real, ovl_merge, ovl_ops).  Opt-in per function through the two
hooks of vx/build.py: `fn.locate` (where the item's text comes from) and `fn.body_hooks` (body -> body).  Every rule logs what it did in
`rules_fired`; a shape it does not recognise raises ExtractError (exit 2, never an alarm).  Newline counts are preserved (X._pad), so
generated lines still map 1:1 onto /repo lines.

R26  named local closure lifted to a function      `let NAME = |PARAMS| -> RET { BODY };` inside F   ->   `fn NAME(CAPTURES, PARAMS) -> RET { BODY }`
     next to F, and every call `NAME(ARGS)` in F -> `CALLEE_PREFIX ARGS)`.  The captured variables (hand-listed, immutable captures only:
     the closure must not assign to them) become leading parameters.  A `return` / `?` in BODY leaves the closure, and it leaves the
     lifted function in the same way.  Nothing is dropped.
R27  counter zip dropped                           `for (CNT, X) in (1..).zip(E) {` -> `for X in E {` when CNT does not occur in the loop
     body after R2 (it was only printed).  Dropped: the counter (and its theoretical overflow after 2^31 layers).
R28  `for` over an owned collection, by definition `for PAT in E { B }` -> `let mut IT = INTO_ITER(E); while let Some(PAT) = IT.next() { B }`
     (the language definition of `for`, with the collection's IntoIterator spelled as a model constructor: vstd has no specification for
     vec::IntoIter / hash_map::IntoIter).  Nothing is dropped.
R29  closure passed to handle_upper_inode_locked inlined
     `RECV.handle_upper_inode_locked(&mut |P| -> Result<bool> { BODY })?;`  ->
     `{ let P: Option<&RealInode> = RECV.hu_upper()?; BODY' }`
     where hu_upper is the dispatch of handle_upper_inode_locked (first real inode if it is in the upper layer, None otherwise, Err for a
     node without real inodes; the real text of handle_upper_inode_locked is verified against this very contract in unit ovl_merge) and
     BODY' is BODY with its final `Ok(false)` / `Ok(true)` dropped.  Inside the closure `return Err(E)` and `?` hand the error to the
     caller of handle_upper_inode_locked, which propagates it with `?`: the inlined `return Err(E)` / `?` do the same in one step.  A
     `return Ok(..)` inside the closure is not supported (ExtractError).  Dropped: nothing observable - the bool is discarded by `?;`.
"""
import re

from . import extract as X


def _find_let_closure(body, name):
    msk = X.mask(body)
    m = re.search(r'\blet\s+%s\s*=\s*\|' % re.escape(name), msk)
    if not m:
        raise X.ExtractError('R26: `let %s = |..|` not found' % name)
    p0 = m.end() - 1
    p1 = msk.index('|', p0 + 1)
    params = body[p0 + 1:p1]
    k = p1 + 1
    rm = re.match(r'\s*->\s*([^{]+?)\s*\{', msk[k:])
    if not rm:
        raise X.ExtractError('R26: closure %s has no `-> RET {` header' % name)
    ret = body[k + rm.start(1):k + rm.end(1)].strip()
    ob = k + rm.end() - 1
    cb = X.match_close(msk, ob)
    tail = re.match(r'\s*;', msk[cb + 1:])
    if not tail:
        raise X.ExtractError('R26: closure %s is not the whole initialiser of a let' % name)
    return dict(start=m.start(), end=cb + 1 + tail.end(), params=params, ret=ret, ob=ob, cb=cb)


def r26_locate(scope, fn_name, closure, self_param, captures):
    """-> locate(src, fired) for the LIFTED function (Fn.locate)"""
    def locate(src, fired):
        d = src.find_fn(scope, fn_name)
        c = _find_let_closure(d['body'], closure)
        body = d['body'][c['ob']:c['cb'] + 1]
        msk = X.mask(body)
        for cap in captures:
            cn = cap.split(':')[0].strip()
            if re.search(r'\b%s\s*(=[^=]|\+=|-=)' % re.escape(cn), msk):
                raise X.ExtractError('R26: closure %s assigns to captured %s' % (closure, cn))
        params = ', '.join([p for p in ([self_param] if self_param else []) + list(captures) + [X.norm_ws(c['params'])] if p])
        sig = 'fn %s(%s) -> %s ' % (closure, params, c['ret'])
        line = d['body_line'] + d['body'].count('\n', 0, c['ob'])
        fired.append('R26 local closure `%s` of %s lifted to a function (captures: %s)' % (closure, fn_name, ', '.join(([self_param] if self_param else []) + list(captures))))
        return dict(sig=sig, body=body, line=line, body_line=line, attrs=[], start=0, end=0)
    return locate


def r26_parent_hook(closure, call_prefix):
    """-> body hook for the function that contained the closure: the `let` goes, calls are redirected"""
    def hook(body, fired):
        c = _find_let_closure(body, closure)
        body = body[:c['start']] + X._pad('', body[c['start']:c['end']]) + body[c['end']:]
        msk = X.mask(body)
        hits = list(re.finditer(r'(?<![\w.:])%s\(' % re.escape(closure), msk))
        if not hits:
            raise X.ExtractError('R26: no call of the lifted closure %s' % closure)
        for m in reversed(hits):
            body = body[:m.start()] + call_prefix + body[m.end():]
        fired.append('R26 `let %s = |..| {..};` removed, %d call(s) redirected to the lifted function (%s..)' % (closure, len(hits), call_prefix))
        return body
    return hook


def r27_drop_zip_counter(label='', header_extra='', body_prefix=''):
    """-> hook; `label` (`it: `), `header_extra` (loop invariants) and `body_prefix` (ghost code at the top of the loop body) are R8 splices"""
    def hook(body, fired):
        msk = X.mask(body)
        m = re.search(r'\bfor\s*\(\s*(\w+)\s*,\s*(\w+)\s*\)\s*in\s*\(1\.\.\)\s*\.zip\(', msk)
        if not m:
            raise X.ExtractError('R27: `for (cnt, x) in (1..).zip(E)` not found')
        ob = m.end() - 1
        cb = X.match_close(msk, ob)
        rest = re.match(r'\s*\{', msk[cb + 1:])
        if not rest:
            raise X.ExtractError('R27: unexpected loop header')
        lb = cb + 1 + rest.end() - 1
        le = X.match_close(msk, lb)
        cnt = m.group(1)
        if re.search(r'\b%s\b' % re.escape(cnt), msk[lb:le + 1]):
            raise X.ExtractError('R27: the counter %s is used in the loop body' % cnt)
        new = 'for %s in %s%s %s{%s' % (m.group(2), label, body[ob + 1:cb], header_extra.replace('\n', X.SEP), body_prefix.replace('\n', X.SEP))
        fired.append('R27 for (%s, %s) in (1..).zip(E) -> for %s in E (the counter is not used after R2)' % (cnt, m.group(2), m.group(2)))
        return body[:m.start()] + X._pad(new, body[m.start():lb + 1]) + body[lb + 1:]
    return hook


def r28_for_owned(pattern_rx, ctor, itname, header_extra='', body_prefix='', mid='', after=''):
    """-> hook: the single loop `for PAT in EXPR {` whose header matches `pattern_rx` (groups: 1 = PAT, 2 = EXPR) becomes
    `let mut IT = CTOR(EXPR); while let Some(PAT) = IT.next() HEADER_EXTRA { BODY_PREFIX`  (HEADER_EXTRA = loop invariants, BODY_PREFIX / MID (between the let and the while) / AFTER (behind the loop) = ghost code: all R8)"""
    def hook(body, fired):
        msk = X.mask(body)
        hits = list(re.finditer(pattern_rx, msk))
        if len(hits) != 1:
            raise X.ExtractError('R28: /%s/ matches %d times' % (pattern_rx, len(hits)))
        m = hits[0]
        pat, expr = body[m.start(1):m.end(1)], body[m.start(2):m.end(2)]
        new = 'let mut %s = %s(%s);%s while let Some(%s) = %s.next() %s{%s' % (itname, ctor, expr.strip(), mid.replace('\n', X.SEP), pat.strip(), itname, header_extra.replace('\n', X.SEP), body_prefix.replace('\n', X.SEP))
        fired.append('R28 for %s in %s -> let mut %s = %s(..); while let Some(..) = %s.next()' % (X.norm_ws(pat), X.norm_ws(expr), itname, ctor, itname))
        if after:
            cb = X.match_close(msk, m.end() - 1)          # the loop's closing brace: ghost code (R8) goes right behind it
            body = body[:cb + 1] + X.SEP + after.replace('\n', X.SEP) + X.SEP + body[cb + 1:]
        return body[:m.start()] + X._pad(new, body[m.start():m.end()]) + body[m.end():]
    return hook


def r29_inline_upper_closure(nth):
    """-> hook: the nth (0-based, counted on the text as it is when the hook runs) `RECV.handle_upper_inode_locked(&mut |P| -> Result<bool> { BODY })?;`"""
    def hook(body, fired):
        msk = X.mask(body)
        hits = list(re.finditer(r'((?:\w+\s*\.\s*)*\w+)\s*\.\s*handle_upper_inode_locked\s*\(\s*&mut\s*\|\s*(\w+)\s*\|\s*->\s*Result<bool>\s*\{', msk))
        if len(hits) <= nth:
            raise X.ExtractError('R29: closure %d of handle_upper_inode_locked not found (%d present)' % (nth, len(hits)))
        m = hits[nth]
        recv, p = re.sub(r'\s+', '', body[m.start(1):m.end(1)]), m.group(2)
        ob = m.end() - 1
        cb = X.match_close(msk, ob)
        tail = re.match(r'\s*\)\s*\?\s*;', msk[cb + 1:])
        if not tail:
            raise X.ExtractError('R29: the call is not of the form `X.handle_upper_inode_locked(&mut |p| -> Result<bool> {..})?;`')
        e = cb + 1 + tail.end()
        inner, inner_m = body[ob + 1:cb], msk[ob + 1:cb]
        if re.search(r'\breturn\s+Ok\b', inner_m):
            raise X.ExtractError('R29: `return Ok(..)` inside the closure is not supported')
        fm = re.search(r'\bOk\((?:false|true)\)\s*$', inner_m)
        if not fm:
            raise X.ExtractError('R29: the closure does not end in Ok(false) / Ok(true)')
        inner = inner[:fm.start()] + X._pad('', inner[fm.start():])
        head = '{ let %s: Option<&RealInode> = %s.hu_upper()?;' % (p, recv)
        fired.append('R29 closure %d passed to %s.handle_upper_inode_locked inlined (dispatch = hu_upper; final Ok(bool) dropped)' % (nth, recv))
        return body[:m.start()] + X._pad(head, body[m.start():ob + 1]) + inner + X._pad('}', body[cb:e]) + body[e:]
    return hook


def resub_hook(rx, rep, why):
    """a body_resub rule (regex -> replacement, every occurrence, logged as ABSTRACT) that must run BEFORE the ghost-token rule R23, because
    its replacement contains a call that takes the token"""
    def hook(body, fired):
        n = len(re.findall(rx, body, flags=re.S))
        if n:
            body = re.sub(rx, lambda m: X._pad(m.expand(rep), m.group(0)), body, flags=re.S)
            fired.append('ABSTRACT /%s/ -> %s (%s) x%d' % (rx[:60], rep[:60], why, n))
        return body
    return hook


def presub_locate(scope, name, subs):
    """-> Fn.locate: literal substitutions on the function's ORIGINAL text, before the standard rules run (needed where a standard rule -
    R7 `format!(..)` -> fmt_opaque() - would erase what a contract speaks about).  Each (old, new, why) must occur exactly once; logged."""
    def locate(src, fired):
        d = dict(src.find_fn(scope, name))
        body = d['body']
        for (old, new, why) in subs:
            if body.count(old) != 1:
                raise X.ExtractError('ANCHOR-LOST presub in %s: %r occurs %d times' % (name, old, body.count(old)))
            body = body.replace(old, X._pad(new, old))
            fired.append('PRESUB %r -> %r (%s)' % (old, new, why))
        d['body'] = body
        return d
    return locate


# ----------------------------------------------------------------------------------------------------------------------
# Rules introduced for unit ovl_view (the overlay's live-view bookkeeping).  Additive and opt-in (body_hooks), logged like the ones above.
#
# R60  `for` over the values of a HashMap, by definition     `for X in RECV.values() { B }`  ->
#      `let VS = RECV.values_vec(); for X in IT: VS.iter() HEADER { B }`
#      (HashMap::values: "an iterator visiting all values in arbitrary order", each value once, by reference; `values_vec` is the model
#      constructor that yields the same values in the map's iteration order - vstd has no specification for hash_map::Values).  `X` keeps
#      its type `&V`.  Nothing is dropped.  HEADER = loop invariants (R8).
# R61  counter zip from zero, by definition                  `for (I, PAT) in (0_u64..).zip(OWNED) { B }`  ->
#      `let mut I: u64 = 0; let mut IT = CTOR(OWNED); while let Some(PAT) = IT.next() HEADER { B  I = I + 1; }`
#      (Zip::next takes the next counter value and the next element and ends with the shorter side - the collection; the counter that goes
#      with element k is k).  B must not contain `continue` (ExtractError otherwise); a `break` / `return` leaves the loop before the
#      increment, where the counter is dead.  The increment is an exec addition: Verus demands a proof that it does not overflow
#      (RangeFrom<u64> would panic there in a debug build).  Nothing is dropped.

def r60_for_map_values(recv_rx, vecname, label='it', header_extra='', body_prefix=''):
    """-> hook: the single loop `for X in RECV.values() {` with RECV matching `recv_rx`"""
    def hook(body, fired):
        msk = X.mask(body)
        hits = list(re.finditer(r'\bfor\s+(\w+)\s+in\s+(%s)\s*\.\s*values\(\)\s*\{' % recv_rx, msk))
        if len(hits) != 1:
            raise X.ExtractError('R60: `for X in %s.values() {` matches %d times' % (recv_rx, len(hits)))
        m = hits[0]
        x, recv = m.group(1), body[m.start(2):m.end(2)]
        new = 'let %s = %s.values_vec(); for %s in %s: %s.iter() %s{%s' % (vecname, recv.strip(), x, label, vecname, header_extra.replace('\n', X.SEP), body_prefix.replace('\n', X.SEP))
        fired.append('R60 for %s in %s.values() -> let %s = ..values_vec(); for %s in %s.iter()' % (x, X.norm_ws(recv), vecname, x, vecname))
        return body[:m.start()] + X._pad(new, body[m.start():m.end()]) + body[m.end():]
    return hook


def r61_zip_from_zero(ctor, itname, header_extra='', body_prefix='', mid='', body_suffix=''):
    """-> hook: the single loop `for (I, PAT) in (0_u64..).zip(OWNED) {`; HEADER_EXTRA / BODY_PREFIX / MID (between the lets and the while) /
    BODY_SUFFIX (ghost code in front of the increment) are R8 splices"""
    def hook(body, fired):
        msk = X.mask(body)
        hits = list(re.finditer(r'\bfor\s*\(\s*(\w+)\s*,\s*', msk))
        hits = [h for h in hits if re.match(r'[^{;]*?\)\s*in\s*\(0_u64\.\.\)\s*\.zip\(', msk[h.end():])]
        if len(hits) != 1:
            raise X.ExtractError('R61: `for (i, pat) in (0_u64..).zip(E) {` matches %d times' % len(hits))
        m = hits[0]
        cnt = m.group(1)
        k = m.end()
        # PAT: up to the `)` that closes the outer tuple pattern
        ob = msk.rfind('(', 0, k)
        cb = X.match_close(msk, ob)
        pat = body[k:cb]
        zm = re.match(r'\s*in\s*\(0_u64\.\.\)\s*\.zip\(', msk[cb + 1:])
        if not zm:
            raise X.ExtractError('R61: unexpected loop header')
        zo = cb + 1 + zm.end() - 1
        zc = X.match_close(msk, zo)
        owned = body[zo + 1:zc]
        lm = re.match(r'\s*\{', msk[zc + 1:])
        if not lm:
            raise X.ExtractError('R61: unexpected loop header')
        lb = zc + 1 + lm.end() - 1
        le = X.match_close(msk, lb)
        if re.search(r'\bcontinue\b', msk[lb:le + 1]):
            raise X.ExtractError('R61: `continue` in the loop body')
        head = 'let mut %s: u64 = 0; let mut %s = %s(%s);%s while let Some(%s) = %s.next() %s{%s' % (
            cnt, itname, ctor, owned.strip(), mid.replace('\n', X.SEP), pat.strip(), itname, header_extra.replace('\n', X.SEP), body_prefix.replace('\n', X.SEP))
        tail = '%s %s = %s + 1; }' % (body_suffix.replace('\n', X.SEP), cnt, cnt)
        fired.append('R61 for (%s, %s) in (0_u64..).zip(%s) -> let mut %s: u64 = 0; let mut %s = %s(..); while let Some(..) = %s.next() { ..; %s = %s + 1; }' % (
            cnt, X.norm_ws(pat), X.norm_ws(owned), cnt, itname, ctor, itname, cnt, cnt))
        return body[:m.start()] + X._pad(head, body[m.start():lb + 1]) + body[lb + 1:le] + tail + body[le + 1:]
    return hook


def r8_at_loop_end(header_rx, text):
    """-> hook (R8, ghost code only): `text` goes in front of the closing brace of the single loop whose header matches `header_rx` (a regex on the
    masked body that ends at the loop's opening brace).  For a ghost step that must follow the LAST statement of a loop body whatever that
    statement is (anchoring on the statement itself would lose the anchor as soon as the statement is edited)."""
    def hook(body, fired):
        msk = X.mask(body.replace(X.SEP, '\n'))      # ghost text spliced earlier sits behind SEP marks: a `//` comment in it ends there, not at the end of the source line
        hits = list(re.finditer(header_rx, msk))
        if len(hits) != 1:
            raise X.ExtractError('R8 loop-end splice: /%s/ matches %d times' % (header_rx, len(hits)))
        ob = hits[0].end() - 1
        if msk[ob] != '{':
            raise X.ExtractError('R8 loop-end splice: the header pattern does not end at the opening brace')
        cb = X.match_close(msk, ob)
        fired.append('R8 splice at the end of the body of the loop /%s/' % header_rx[:40])
        return body[:cb] + X.SEP + text.replace('\n', X.SEP) + X.SEP + body[cb:]
    return hook


# ----------------------------------------------------------------------------------------------------------------------
# Rule introduced for unit ovl_read.  Additive and opt-in (body_hooks), logged.
#
# R23n  ghost token, body part, for NESTED callee calls     `.A(x, y.B(z))` with A and B both in the callee list  ->  `.A(x, y.B(z, TOKEN), TOKEN)`
#       Same meaning as R23 (extract.r23_ghost_token_calls: every method call of a listed callee gets the ghost argument appended; erased by Verus).
#       The standard implementation computes every closing parenthesis on the text as it was BEFORE the first insertion, so an insertion into an
#       inner call misplaces the argument of the call around it; here the text is re-scanned after every insertion (last call first).  The function
#       that uses this hook lists no method callees for the standard rule (its `ghost_token['callees']` is empty), so no call gets the argument twice.

def r23n_nested_calls(callees, arg):
    def hook(body, fired):
        rx = re.compile(r'\.\s*(%s)\s*\(' % '|'.join(re.escape(c) for c in callees))
        names, done, limit = [], 0, len(body) + 1
        while True:
            msk = X.mask(body)
            hits = [m for m in rx.finditer(msk) if m.start() < limit]
            if not hits:
                break
            m = hits[-1]
            ob = m.end() - 1
            cb = X.match_close(msk, ob)
            j = cb
            while msk[j - 1] in ' \t\n':
                j -= 1
            sep = '' if j - 1 == ob else (' ' if msk[j - 1] == ',' else ', ')
            body = body[:j] + sep + arg + body[j:]
            limit = m.start()
            names.append(m.group(1))
            done += 1
        if done:
            fired.append('R23n ghost argument %s appended to %d call(s), nested calls re-scanned: %s' % (arg, done, ', '.join(sorted(set(names)))))
        return body
    return hook
