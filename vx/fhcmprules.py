"""Rewrite rules introduced for unit `fhcmp` (C08 / C05 / C16: the order on file handles, the DAX and readdir wrappers of the passthrough file system).
Opt-in per function through the hooks of vx/build.py (`fn.body_hooks`: body -> body, run after the standard rules and BEFORE the ghost-token rule R23).
Every rule logs what it did in `rules_fired`; a shape it does not recognise raises ExtractError (exit 2, never an alarm).  Newline counts are
preserved (X._pad).  Additive: no existing unit uses this module.

R79  a closure literal handed to a callee as `&mut |P1, P2, ..| { BODY }` (LAST argument of the single call `.CALLEE(` of the function) is replaced by a
     MODEL OBJECT built from exactly the variables the closure captures:  `&mut CTOR(c1, c2, ..)`  where c1, c2, .. are those parameters of the
     enclosing function (incl. `self`) that occur free in BODY, in the order of the enclosing signature.  The closure's TEXT is covered elsewhere as a
     lifted function (rule R17, unit ptlookup: `readdir_entry` / `readdirplus_entry` take exactly these captures as parameters); what this rule keeps
     for the enclosing function is WHICH values the callback closes over - `CTOR`'s contract records them in the object's view, and the callee's
     capability speaks about that view.  A closure that captures other variables yields another argument list (a type error = exit 2, or a view the
     capability does not grant = a failing obligation).  Refused (exit 2): a closure parameter or `let` inside BODY that shadows an enclosing
     parameter, `return` inside BODY, a closure that is not the last argument, more than one call of CALLEE.
     Dropped: the closure's body (verified as the lifted function of unit ptlookup); the link "calling the object = calling the lifted function" is the
     assumption of R17.
R80  what `#[derive(PartialOrd, Ord, PartialEq)]` generates for a struct with named fields, written out from the struct's ACTUAL field list and
     derive list (rustc's built-in derive, library/core/src/cmp.rs "derive(Ord) on structs will produce a lexicographic ordering based on the
     top-to-bottom declaration order of the struct's members"; PartialEq: "two instances are equal if all fields are equal"):
        cmp          match self.f1.cmp(&other.f1) { Ordering::Equal => <rest>, ord => ord }            (last field: self.fn.cmp(&other.fn))
        partial_cmp  match self.f1.partial_cmp(&other.f1) { Some(Ordering::Equal) => <rest>, ord => ord }
        eq           self.f1 == other.f1 && .. ; a field whose type is listed as `method_eq` is compared with `.eq(&..)` (the `==` of a type whose
                     PartialEq is an extracted function, emitted as an inherent method)
     A derive list without the trait is exit 2 (a hand-written impl would have to be extracted instead).  The emitted functions are VERIFIED; their
     shape is the assumption.
"""
import re

from . import extract as X


# ------------------------------------------------------------------------------------------------------------------- R79
def _sig_params(sig):
    """names of the parameters of a function signature, `self` included"""
    msk = X.mask(sig)
    ob = msk.index('(')
    cb = X.match_close(msk, ob)
    out = []
    for p in X.split_top(sig[ob + 1:cb]):
        p = p.strip()
        if not p:
            continue
        if re.match(r'^(&\s*(\'\w+\s+)?)?(mut\s+)?self\b', p):
            out.append('self')
            continue
        m = re.match(r'^(?:mut\s+)?(\w+)\s*:', p)
        if not m:
            raise X.ExtractError('R79: parameter %r of the enclosing function is not a plain name' % p)
        out.append(m.group(1))
    return out


def _closure_arg(body, callee):
    msk = X.mask(body)
    hits = list(re.finditer(r'\.\s*%s\s*\(' % re.escape(callee), msk))
    if len(hits) != 1:
        raise X.ExtractError('R79: %d calls of .%s(' % (len(hits), callee))
    ob = hits[0].end() - 1
    cb = X.match_close(msk, ob)
    k, d, p0 = ob + 1, 0, -1
    while k < cb:
        c = msk[k]
        if c in '([{':
            d += 1
        elif c in ')]}':
            d -= 1
        elif c == '|' and d == 0:
            p0 = k
            break
        k += 1
    if p0 < 0:
        raise X.ExtractError('R79: no closure literal among the arguments of .%s(' % callee)
    lead = re.search(r',\s*&\s*mut\s*$', msk[ob + 1:p0])
    if not lead:
        raise X.ExtractError('R79: the closure handed to .%s( is not written `&mut |..| ..`' % callee)
    start = ob + 1 + lead.start() + 1           # behind the comma
    p1 = msk.index('|', p0 + 1)
    params = [re.sub(r'^mut\s+', '', p.strip()) for p in body[p0 + 1:p1].split(',') if p.strip()]
    e = cb
    while msk[e - 1] in ' \t\n,':
        e -= 1
    bs = p1 + 1
    while msk[bs] in ' \t\n':
        bs += 1
    if msk[bs] != '{' or X.match_close(msk, bs) != e - 1:
        raise X.ExtractError('R79: the closure handed to .%s( is not the last argument or its body is not one block' % callee)
    return dict(start=start, end=e, params=params, cbody=body[bs:e], cmask=msk[bs:e])


def r79_closure_to_model(root, file, scope, name, callee, ctor):
    enclosing = _sig_params(X.Source(root, file).find_fn(scope, name)['sig'])

    def hook(body, fired):
        c = _closure_arg(body, callee)
        for p in c['params']:
            if not re.match(r'^\w+$', p):
                raise X.ExtractError('R79: closure parameter %r is not a plain name' % p)
        cm = c['cmask']
        if re.search(r'\breturn\b', cm):
            raise X.ExtractError('R79: `return` inside the closure')
        bound = set(c['params']) | set(re.findall(r'\blet\s+(?:mut\s+)?(\w+)\b', cm))
        caps = []
        for v in enclosing:
            if v in bound:
                raise X.ExtractError('R79: the closure re-binds %s, a parameter of the enclosing function' % v)
            if re.search(r'(?<![\w.])%s\b' % re.escape(v), cm):
                caps.append(v)
        obj = '&mut %s(%s)' % (ctor, ', '.join(caps))
        seg = body[c['start']:c['end']]
        body = body[:c['start']] + ' ' + X._pad(obj, seg) + body[c['end']:]
        fired.append('R79 closure argument `&mut |%s| {..}` of .%s( -> %s (model object over the closure\'s captures; the closure text is the lifted function of unit ptlookup, R17)'
                     % (', '.join(c['params']), callee, obj))
        return body
    return hook


# ------------------------------------------------------------------------------------------------------------------- R80
def derive_info(root, file, struct):
    """(fields [(name, type)], derive list) of `struct NAME { .. }` in file"""
    src = X.Source(root, file)
    ms = list(re.finditer(r'\bstruct\s+%s\s*\{' % re.escape(struct), src.msk))
    if len(ms) != 1:
        raise X.ExtractError('R80: struct %s found %d times in %s' % (struct, len(ms), file))
    ob = ms[0].end() - 1
    cb = X.match_close(src.msk, ob)
    fields = []
    for f in X.split_top(src.msk[ob + 1:cb]):
        f = re.sub(r'#\[[^\]]*\]', '', f).strip()
        if not f:
            continue
        m = re.match(r'^(?:pub(?:\([^)]*\))?\s+)?(\w+)\s*:\s*(.+)$', f, re.S)
        if not m:
            raise X.ExtractError('R80: field %r of struct %s not understood' % (f, struct))
        fields.append((m.group(1), X.norm_ws(m.group(2))))
    # the attributes in front of the item
    ls = src.src.rfind('\n', 0, ms[0].start()) + 1
    _, attrs = X.leading_attrs(src.src, src.msk, ls)
    derives = []
    for a in attrs:
        m = re.search(r'derive\s*\(([^)]*)\)', a)
        if m:
            derives += [d.strip() for d in m.group(1).split(',') if d.strip()]
    return fields, derives


def r80_derive_cmp(root, file, struct, method_eq=()):
    """-> dict(cmp=, partial_cmp=, eq=) bodies (text of the three method bodies) + a log line"""
    fields, derives = derive_info(root, file, struct)
    for need in ('PartialOrd', 'Ord', 'PartialEq', 'Eq'):
        if need not in derives:
            raise X.ExtractError('R80: struct %s does not derive %s (derive list: %s)' % (struct, need, ', '.join(derives)))
    if not fields:
        raise X.ExtractError('R80: struct %s has no named fields' % struct)

    def chain(meth, eqpat):
        t = 'self.%s.%s(&other.%s)' % (fields[-1][0], meth, fields[-1][0])
        for (f, _ty) in reversed(fields[:-1]):
            t = 'match self.%s.%s(&other.%s) { %s => %s, ord => ord }' % (f, meth, f, eqpat, t)
        return t
    eqs = []
    for (f, ty) in fields:
        eqs.append('self.%s.eq(&other.%s)' % (f, f) if ty in method_eq else 'self.%s == other.%s' % (f, f))
    log = 'R80 #[derive(PartialOrd, Ord, PartialEq)] of struct %s written out over its fields (%s), declaration order' % (struct, ', '.join(f for f, _ in fields))
    return dict(cmp=chain('cmp', 'Ordering::Equal'), partial_cmp=chain('partial_cmp', 'Some(Ordering::Equal)'), eq=' && '.join(eqs), fields=fields, log=log)
