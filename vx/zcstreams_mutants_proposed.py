"""Proposed entries for vx/mutants.py (properties C04 / C20, unit zcstreams: the provided methods of trait ZeroCopyReader / ZeroCopyWriter in
src/api/filesystem/mod.rs, the ZcReader / ZcWriter / AsyncZcReader / AsyncZcWriter adapters of src/api/server, the overlay's File adapters).
Every `old` occurs exactly once in its file at /repo HEAD (self-test at the bottom: `python3 vx/zcstreams_mutants_proposed.py [SRC]`); each mutant
was killed in the sub-agent's campaign with the obligation(s) given in the comment.  The unit's baseline on the unchanged tree are the two
obligations of finding Z1 (`C04.zc.ovl_read_to.reports_what_was_taken`, `C04.zc.ovl_read_to.err_nothing_taken`): compare against them (a mutant is
killed when ANOTHER obligation fails); on a tree that carries the Z1 repair (/var/tmp/z1-fix.patch) the baseline is STATUS ok and the four
`zc-ovl-rto-seek-* / -no-seek-on-error / -reports-taken` mutants apply.  The C20 entries need feature async-io (the unit switches it on for itself)."""
FS = 'src/api/filesystem/mod.rs'
SV = 'src/api/server/mod.rs'
SA = 'src/api/server/async_io.rs'
OV = 'src/overlayfs/mod.rs'

WZ = '''Ok(0) => {
                    return Err(io::Error::new(
                        io::ErrorKind::WriteZero,
                        "failed to fill whole buffer",
                    ))
                }'''

MUTANTS = {
    'C04': [
        # killed by C04.zc.read_exact_to.loop.next_call
        ('zc-exact-offset-stays', FS, 'Ok(n) => {\n                    count -= n;\n                    off += n as u64;', 'Ok(n) => {\n                    count -= n;'),
        # killed by C04.zc.read_exact_to.chain, .loop.chain, .loop.next_call
        ('zc-exact-offset-zero', FS, 'match self.read_to(f, count, off) {', 'match self.read_to(f, count, 0) {'),
        # killed by C04.zc.read_exact_to.short_fails
        ('zc-exact-wrong-errkind', FS, 'io::ErrorKind::WriteZero,\n', 'io::ErrorKind::UnexpectedEof,\n'),
        # killed by C04.zc.read_exact_to.exact, .short_fails
        ('zc-exact-short-is-ok', FS, WZ, 'Ok(0) => return Ok(()),'),
        # killed by C04.zc.r_copy_to_end.total
        ('zc-rcopy-total-zero', FS, 'match self.read_to(f, usize::MAX, off) {\n                Ok(0) => return Ok(out),', 'match self.read_to(f, usize::MAX, off) {\n                Ok(0) => return Ok(0),'),
        # killed by C04.zc.r_copy_to_end.loop.next_call, .loop.total
        ('zc-rcopy-offset-stays', FS, 'match self.read_to(f, usize::MAX, off) {\n                Ok(0) => return Ok(out),\n                Ok(n) => {\n                    off = off.saturating_add(n as u64);',
         'match self.read_to(f, usize::MAX, off) {\n                Ok(0) => return Ok(out),\n                Ok(n) => {'),
        # killed by C04.zc.write_all_from.chain, .loop.chain, .loop.next_call (+ arithmetic underflow)
        ('zc-wall-count-not-shrinking', FS, 'match self.write_from(f, count, off) {', 'match self.write_from(f, usize::MAX, off) {'),
        # killed by C04.zc.write_all_from.err_passthrough, .loop.next_call
        ('zc-wall-retry-wrong-error', FS, '// overflow and `n` must be <= `count`.\n                    count -= n;\n                    off += n as u64;\n                }\n                Err(ref e) if e.kind() == io::ErrorKind::Interrupted => {}',
         '// overflow and `n` must be <= `count`.\n                    count -= n;\n                    off += n as u64;\n                }\n                Err(ref e) if e.kind() == io::ErrorKind::WouldBlock => {}'),
        # killed by C04.zc.write_all_from.loop.next_call
        ('zc-wall-count-minus-one', FS, '// overflow and `n` must be <= `count`.\n                    count -= n;', '// overflow and `n` must be <= `count`.\n                    count -= n - 1;'),
        # killed by C04.zc.w_copy_to_end.loop.total
        ('zc-wcopy-total-wrong', FS, 'match self.write_from(f, usize::MAX, off) {\n                Ok(0) => return Ok(out),\n                Ok(n) => {\n                    off = off.saturating_add(n as u64);\n                    out += n;',
         'match self.write_from(f, usize::MAX, off) {\n                Ok(0) => return Ok(out),\n                Ok(n) => {\n                    off = off.saturating_add(n as u64);\n                    out += 1;'),
        # killed by C04.zc.zcreader.read_to.result, .once, zcstreams.read_to.cap  (the offset never reaches the transport)
        ('zc-zcreader-drops-offset', SV, 'self.0.read_to_at(f, count, off)', 'self.0.read_to(f, count)'),
        # killed by zcstreams.write_from.cap, C04.zc.zcwriter.write_from.meets_trait.file_offset_range
        ('zc-zcwriter-offset-zero', SV, 'self.0.write_from_at(f, count, off)', 'self.0.write_from_at(f, count, 0)'),
        # killed by C04.zc.zcwriter.available_bytes.result, zcstreams.available_bytes.cap
        ('zc-zcwriter-avail-is-written', SV, 'self.0.available_bytes()', 'self.0.bytes_written()'),
        # killed by C04.zc.zcreader.read.result
        ('zc-zcreader-read-result-changed', SV, 'self.0.read(buf)', '{ let n = self.0.read(buf)?; Ok(n.saturating_sub(1)) }'),
        # killed by C04.zc.zcwriter.write.once, .result, zcstreams.write.cap
        ('zc-zcwriter-write-twice', SV, 'self.0.write(buf)', '{ self.0.write(buf)?; self.0.write(buf) }'),
        # killed by C04.zc.ovl_write_from.relays_in_order, .err_nothing_put
        ('zc-ovl-wfrom-offset-zero', OV, 'f.read_at_volatile(slice, off)?', 'f.read_at_volatile(slice, 0)?'),
        # killed by C04.zc.ovl_write_from.relays_in_order, .buffer_of_count_bytes, .err_nothing_put
        ('zc-ovl-wfrom-writes-twice', OV, 'self.write_volatile(slice)', '{ self.write_volatile(slice)?; self.write_volatile(slice) }'),
        # killed by C04.zc.ovl_read_to.relays_in_order
        ('zc-ovl-rto-wrong-offset', OV, 'f.write_at_volatile(slice, off)', 'f.write_at_volatile(slice, off / 2)'),
        # killed by C04.zc.ovl.window_in_bounds (+ at_most_count, buffer_of_count_bytes, overflow)
        ('zc-ovl-window-too-long', OV, 'let slice = unsafe { FileVolatileSlice::from_raw_ptr(buf.as_mut_ptr(), count) };\n        // Read from f at offset off to slice.',
         'let slice = unsafe { FileVolatileSlice::from_raw_ptr(buf.as_mut_ptr(), count + 1) };\n        // Read from f at offset off to slice.'),
        # killed by C04.zc.ovl_write_from.relays_in_order  (the whole bounce buffer instead of the bytes obtained)
        ('zc-ovl-wfrom-full-buffer-written', OV, 'let slice = unsafe { FileVolatileSlice::from_raw_ptr(buf.as_mut_ptr(), ret) };\n            // Write from slice to self.',
         'let slice = unsafe { FileVolatileSlice::from_raw_ptr(buf.as_mut_ptr(), count) };\n            // Write from slice to self.'),
        # ---- mutants of the REPAIRED overlay read_to (finding Z1 fixed: bytes taken from self that f did not accept are given back by seeking);
        # their `old` texts exist only in a tree that carries the repair
        # killed by C04.zc.ovl_read_to.reports_what_was_taken (gives back everything, also what f accepted)
        ('zc-ovl-rto-seek-wrong-amount', OV, 'self.seek(SeekFrom::Current(-((ret - written) as i64)))?;', 'self.seek(SeekFrom::Current(-(ret as i64)))?;'),
        # killed by C04.zc.ovl_read_to.err_nothing_taken (no give-back on the error path)
        ('zc-ovl-rto-no-seek-on-error', OV, '                Err(_) => 0,\n            };\n            if written < ret {', '                Err(_) => ret,\n            };\n            if written < ret {'),
        # killed by C04.zc.ovl_read_to.reports_what_was_taken, .err_nothing_taken (skips forward instead of going back)
        ('zc-ovl-rto-seek-forward', OV, 'self.seek(SeekFrom::Current(-((ret - written) as i64)))?;', 'self.seek(SeekFrom::Current((ret - written) as i64))?;'),
        # killed by C04.zc.ovl_read_to.relays_in_order, .reports_what_was_taken (reports what was taken, not what f accepted)
        ('zc-ovl-rto-reports-taken', OV, '                self.seek(SeekFrom::Current(-((ret - written) as i64)))?;\n            }\n            res', '                self.seek(SeekFrom::Current(-((ret - written) as i64)))?;\n            }\n            res.map(|_| ret)'),
    ],
    'C20': [
        # killed by zcstreams.async_read_to.cap (+ overflow)
        ('zc-async-read-off-plus-one', SA, 'self.0.async_read_to_at(&f, count, off).await', 'self.0.async_read_to_at(&f, count, off + 1).await'),
        # killed by zcstreams.async_write_from.cap
        ('zc-async-write-half-count', SA, 'self.0.async_write_from_at(&f, count, off).await', 'self.0.async_write_from_at(&f, count / 2, off).await'),
        # killed by C20.zc.asynczcwriter.flush.once, .result
        ('zc-async-flush-skipped', SA, 'self.0.flush()', 'Ok(())'),
        # killed by zcstreams.read_to.cap, C20.zc.asynczcreader.read_to.meets_trait.*
        ('zc-async-sync-read-to-swapped-args', SA, 'self.0.read_to_at(f, count, off)', 'self.0.read_to_at(f, off as usize, count as u64)'),
    ],
}

if __name__ == '__main__':
    import sys
    root = sys.argv[1] if len(sys.argv) > 1 else '/repo'
    bad = 0
    repaired = 'SeekFrom::Current(-((ret - written)' in open(root.rstrip('/') + '/' + OV).read()
    for prop, ms in MUTANTS.items():
        for (name, f, old, new) in ms:
            if name.startswith('zc-ovl-rto-') and name != 'zc-ovl-rto-wrong-offset' and not repaired:
                continue        # mutants of the Z1 repair: only in a tree that carries it
            n = open(root.rstrip('/') + '/' + f).read().count(old)
            if n != 1 or old == new:
                print('NOT UNIQUE (%d): %s %s' % (n, prop, name))
                bad += 1
    print('%d mutants, %d problems' % (sum(len(v) for v in MUTANTS.values()), bad))
    sys.exit(1 if bad else 0)
