"""Generate the Verus model of `trait FileSystem` mechanically from src/api/filesystem/sync_io.rs.

For every method `op` of the real trait (signature text read from /repo on every run) the model declares

    spec fn allowed_op(&self, <value of every argument>) -> bool;      // capability   (idiom b, DESIGN 3.4)
    spec fn res_op(&self) -> <return type>;                             // "the" result of the single permitted call (idiom a)
    fn op(&self, <real parameter list>) -> (r: <ret>)
        requires self.allowed_op(<args>),   // [cap]
        ensures  r == self.res_op();

Default bodies are dropped (declarations only).  Signature abstractions, all logged in `notes`:
  &mut dyn ZeroCopyWriter / ZeroCopyReader -> generic parameter bounded by the model traits (no `dyn` with supertraits in Verus)
  readdir / readdirplus are omitted (`&mut dyn FnMut` is not supported by Verus)
"""
import re

from . import extract as X

FILE = 'src/api/filesystem/sync_io.rs'
OMIT = {'readdir', 'readdirplus'}


def parse_methods(root):
    src = X.Source(root, FILE)
    sc = src.scopes('pub trait FileSystem')
    if len(sc) != 1:
        raise X.ExtractError('trait FileSystem not found exactly once')
    ob, cb = sc[0]
    out = []
    body_msk = src.msk[ob + 1:cb]
    for m in re.finditer(r'\bfn\s+(\w+)\b', body_msk):
        p = ob + 1 + m.start()
        seg = src.msk[ob + 1:p]
        if seg.count('{') - seg.count('}') != 0:
            continue
        name = m.group(1)
        _, attrs = X.leading_attrs(src.src, src.msk, p)
        if not X.attrs_enabled(attrs):
            continue
        po = src.msk.index('(', p)
        pc = X.match_close(src.msk, po)
        params_txt = src.src[po + 1:pc]
        k = pc + 1
        d = 0
        while src.msk[k] not in '{;' or d:
            if src.msk[k] in '([':
                d += 1
            elif src.msk[k] in ')]':
                d -= 1
            k += 1
        tail = src.src[pc + 1:k]
        rm = re.match(r'\s*->\s*(.*?)\s*$', tail, re.S)
        ret = X.norm_ws(rm.group(1)) if rm else None
        params = []
        pm = X.mask(params_txt)
        parts, cur, d = [], '', 0
        for i, ch in enumerate(params_txt):
            mc = pm[i]
            if mc in '([<':
                d += 1
            elif mc in ')]>':
                if not (mc == '>' and i > 0 and pm[i - 1] == '-'):
                    d -= 1
            if mc == ',' and d == 0:
                parts.append(cur)
                cur = ''
            else:
                cur += ch
        parts.append(cur)
        for prm in parts:
            prm = re.sub(r'//[^\n]*', '', prm)
            prm = re.sub(r'#\[[^\]]*\]', '', prm)
            prm = X.norm_ws(prm)
            if not prm or prm in ('&self', 'self', '&mut self'):
                continue
            n, t = prm.split(':', 1)
            params.append((n.strip().lstrip('_') or 'p', X.norm_ws(t)))
        out.append(dict(name=name, params=params, ret=ret, line=src.line_of(p)))
    return out


RESNAMES = {'()': 'unit', 'Entry': 'entry', '(stat64, Duration)': 'attr', 'Vec<u8>': 'bytes', 'usize': 'count', 'statvfs64': 'statfs',
            'GetxattrReply': 'getxattr', 'ListxattrReply': 'listxattr', 'u64': 'u64', 'u32': 'u32', 'FileLock': 'lock', 'FsOptions': 'init',
            "IoctlData<'_>": 'ioctl', '(Option<Self::Handle>, OpenOptions, Option<u32>)': 'open', '(Option<Self::Handle>, OpenOptions)': 'opendir',
            '(Entry, Option<Self::Handle>, OpenOptions, Option<u32>)': 'create'}


NAMEKEYED = {'id_remap', 'id_remap_with_nodeid'}     # calls made IN ADDITION to the request's own operation keep their own result


def resfn(ret, name=None):
    """One uninterpreted result per RETURN TYPE: `res_<type>()` names "what the filesystem returned" to the single call a
    request may make, whichever operation that was.  (Calling the wrong operation is a capability failure - C02 - and
    does not also make the reply encoding - C03 - fail.)"""
    if name in NAMEKEYED:
        return 'res_' + name
    m = re.match(r'^io::Result<(.*)>$', ret)
    inner = m.group(1) if m else ret
    return 'res_' + RESNAMES.get(inner, re.sub(r'[^A-Za-z0-9]+', '_', inner).strip('_').lower())


def spec_of(pname, ty):
    """-> (spec type, spec expression of the exec argument, exec type in model, generic decl or None) ; None = not part of the call's value"""
    t = ty
    if t == '&Context':
        return ('Context', '*%s' % pname, t, None)
    if t == '&mut Context':
        return ('Context', '*old(%s)' % pname, t, None)
    if t in ('&CStr',):
        return ('Seq<u8>', '%s@' % pname, t, None)
    if t == '&[u8]':
        return ('Seq<u8>', '%s@' % pname, t, None)
    if t.startswith('Vec<'):
        inner = t[4:-1]
        return ('Seq<%s>' % inner, '%s@' % pname, t, None)
    if t == '&mut dyn ZeroCopyWriter':
        return (None, None, '&mut ZW', 'ZW: ZeroCopyWriter')
    if t == '&mut dyn ZeroCopyReader':
        return (None, None, '&mut ZR', 'ZR: ZeroCopyReader')
    if t.startswith('&mut dyn FnMut(DirEntry'):
        # the add_entry callback is abstracted by its two free parameters: the cursor it appends to and the size limit
        # it enforces (Server::do_readdir passes `&mut |d| add_dirent(&mut cursor, max, d, ..)`)
        return ('u32', 'max', "&mut Writer<'_, S>, max: u32", 'S: BitmapSlice')
    if t == '&mut dyn FsCacheReqHandler':
        return (None, None, '&mut FsCacheReq', None)
    if t == 'stat64':
        return ('stat64', 'stat_no_ids(%s)' % pname, t, None)
    if t == 'IoctlData':
        return ('IoctlArg', 'ioctl_arg(%s)' % pname, 'IoctlData<\'_>', None)
    return (t, pname, t, None)


def gen_trait(root, notes, server=False, dirsink=False):
    ms = parse_methods(root)
    L = []
    L.append('// ---- model of trait FileSystem, generated from %s (%d methods)' % (FILE, len(ms)))
    L.append('pub trait FileSystem {')
    L.append('    type Inode: From<u64> + Into<u64>;')
    L.append('    type Handle: From<u64> + Into<u64>;')
    L.append('    spec fn touch_ok(&self) -> bool;                       // the object may be called at all now (name gates)')
    L.append('    spec fn ids_ok(&self, uid: u32, gid: u32) -> bool;      // owner ids a setattr may carry')
    if server:
        L.append('    spec fn res_read_data(&self) -> Seq<u8>;                // the bytes a read produced into the writer it was given')
    if dirsink and dirsink != 'opaque':
        L.append('    spec fn res_dir_data(&self) -> Seq<u8>;                 // the directory entries a readdir(plus) got appended to the reply')
    info = {}
    seen_res = set()
    for m in ms:
        if m['name'] in OMIT and not dirsink:
            notes.append('fsmodel: method %s omitted (&mut dyn FnMut parameter)' % m['name'])
            continue
        sargs, sexprs, eparams, gens = [], [], [], []
        mut_ctx = False
        for (n, t) in m['params']:
            st, se, et, g = spec_of(n, t)
            if t == '&mut Context':
                mut_ctx = True
            if g and g not in gens and not (dirsink == 'opaque' and t.startswith('&mut dyn FnMut(DirEntry')):
                gens.append(g)
            if t.startswith('&mut dyn FnMut(DirEntry') and dirsink == 'opaque':
                # forwarding units (arcfs): the callback is an opaque object that can only be handed on
                eparams.append('%s: &mut DirSink' % n)
                continue
            if t.startswith('&mut dyn FnMut(DirEntry'):
                eparams.append('cursor: %s' % et)
                sargs.append('max: u32')
                sexprs.append('max')
                continue
            eparams.append('%s: %s' % (n, et))
            if st is not None:
                sargs.append('%s: %s' % (n, st))
                sexprs.append(se)
            else:
                notes.append('fsmodel: %s(%s: %s) abstracted to %s' % (m['name'], n, t, et))
        name = m['name']
        g = ('<%s>' % ', '.join(gens)) if gens else ''
        L.append('    spec fn allowed_%s(&self%s) -> bool;' % (name, ''.join(', ' + a for a in sargs)))
        ret = m['ret']
        rf = resfn(ret, name) if ret else None
        if ret and rf not in seen_res:
            seen_res.add(rf)
            ret_spec = ret.replace("IoctlData<'_>", 'IoctlRes')
            L.append('    spec fn %s(&self) -> %s;' % (rf, ret_spec))
        if mut_ctx:
            L.append('    spec fn ctx_%s(&self) -> Context;' % name)
        sig = '    fn %s%s(&self%s)' % (name, g, ''.join(', ' + p for p in eparams))
        if ret:
            sig += ' -> (res: %s)' % ret
        L.append(sig)
        L.append('        requires self.touch_ok(), // [touch]')
        L.append('            self.allowed_%s(%s), // [cap]' % (name, ', '.join(sexprs)))
        for (n, t) in m['params']:
            if t == 'stat64':
                L.append('            self.ids_ok(%s.st_uid, %s.st_gid), // [ids]' % (n, n))
        ens = []
        if ret:
            if 'IoctlData' in ret:
                ens.append('ioctl_res(res) == self.%s()' % rf)
            else:
                ens.append('res == self.%s()' % rf)
        if mut_ctx:
            ens.append('res is Ok ==> *final(ctx) == self.ctx_%s()' % name)
            ens.append('res is Err ==> *final(ctx) == *old(ctx)')
        if server and ret and ret.startswith('io::Result'):
            # T8: an error returned by a filesystem carries a positive errno
            ens.append('res is Err ==> err_ok(res->Err_0)')
        if name in ('readdir', 'readdirplus') and dirsink != 'opaque':
            # T8: a filesystem only calls add_entry (any number of times, stopping at the first error it returns) - so the
            # cursor only grows by what add_dirent appends (proved for add_dirent: whole 8-byte aligned entries within `max`)
            L.insert(len(L) - 0, '            old(cursor).buffered@, // [assert]')
            ens.append('final(cursor).frame_same(old(cursor)) && final(cursor).emitted@ == old(cursor).emitted@ && final(cursor).buf@.len() <= final(cursor).cap@')
            ens.append('res is Ok ==> final(cursor).buf@ == old(cursor).buf@ + self.res_dir_data() && self.res_dir_data().len() % 8 == 0 && (old(cursor).buf@.len() == 0 ==> self.res_dir_data().len() <= max)')
        if name == 'read':
            # T8 (DESIGN section 8): a filesystem's read returns the number of bytes it put into the writer, and only appends
            ens.append('zw_appended(*old(w), *final(w), res)')
            if server:
                ens.append('res is Ok ==> final(w).zw_buf() == old(w).zw_buf() + self.res_read_data() && res->Ok_0 == self.res_read_data().len()')
        if ens:
            L.append('        ensures ' + ', '.join(ens) + ';')
        else:
            L[-1] = L[-1].rstrip()
            L.append('        ;')
        info[name] = dict(sargs=sargs, sexprs=sexprs, ret=ret, params=m['params'], resfn=rf)
    L.append('}')
    return '\n'.join(L), info, ms


def gen_impl(root, struct, inode_ty, handle_ty, notes, generics='', server=False, dirsink=False):
    """an opaque implementor (backend): all spec fns uninterpreted, all methods external_body.  server / dirsink: as given to gen_trait for the
    trait model this impl has to match (only dirsink='opaque' is supported here)"""
    ms = parse_methods(root)
    L = ['impl%s FileSystem for %s {' % (generics, struct), '    type Inode = %s;' % inode_ty, '    type Handle = %s;' % handle_ty,
         '    uninterp spec fn touch_ok(&self) -> bool;', '    uninterp spec fn ids_ok(&self, uid: u32, gid: u32) -> bool;']
    if server:
        L.append('    uninterp spec fn res_read_data(&self) -> Seq<u8>;')
    seen_res = set()
    for m in ms:
        if m['name'] in OMIT and dirsink != 'opaque':
            continue
        sargs, eparams, gens = [], [], []
        mut_ctx = False
        for (n, t) in m['params']:
            if t.startswith('&mut dyn FnMut(DirEntry') and dirsink == 'opaque':
                eparams.append('%s: &mut DirSink' % n)
                continue
            st, se, et, g = spec_of(n, t)
            if t == '&mut Context':
                mut_ctx = True
            if g and g not in gens:
                gens.append(g)
            eparams.append('%s: %s' % (n, et.replace('Self::Inode', inode_ty).replace('Self::Handle', handle_ty)))
            if st is not None:
                sargs.append('%s: %s' % (n, st.replace('Self::Inode', inode_ty).replace('Self::Handle', handle_ty)))
        name = m['name']
        g = ('<%s>' % ', '.join(gens)) if gens else ''
        L.append('    uninterp spec fn allowed_%s(&self%s) -> bool;' % (name, ''.join(', ' + a for a in sargs)))
        ret = m['ret']
        if ret:
            r2 = ret.replace('Self::Inode', inode_ty).replace('Self::Handle', handle_ty)
            if resfn(ret, name) not in seen_res:
                seen_res.add(resfn(ret, name))
                L.append('    uninterp spec fn %s(&self) -> %s;' % (resfn(ret, name), r2.replace("IoctlData<'_>", 'IoctlRes')))
        if mut_ctx:
            L.append('    uninterp spec fn ctx_%s(&self) -> Context;' % name)
        sig = '    #[verifier::external_body] fn %s%s(&self%s)' % (name, g, ''.join(', ' + p for p in eparams))
        if ret:
            sig += ' -> (res: %s)' % r2
        L.append(sig + ' { unimplemented!() }')
    L.append('}')
    return '\n'.join(L)


def gen_forward_impl_header(root, notes, server=True, dirsink=False):
    """`impl<FS: FileSystem> FileSystem for Arc<FS> {` with every spec function defined as the inner object's: the trait
    contract of each method then says exactly "forwards to the same operation of the inner filesystem with the same arguments"."""
    ms = parse_methods(root)
    L = ['impl<FS: FileSystem> FileSystem for Arc<FS> {', '    type Inode = FS::Inode;', '    type Handle = FS::Handle;',
         '    open spec fn touch_ok(&self) -> bool { (**self).touch_ok() }',
         '    open spec fn ids_ok(&self, uid: u32, gid: u32) -> bool { (**self).ids_ok(uid, gid) }']
    if server:
        L.append('    open spec fn res_read_data(&self) -> Seq<u8> { (**self).res_read_data() }')
    seen = set()
    names = []
    for m in ms:
        if m['name'] in OMIT and not dirsink:
            continue
        sargs, anames = [], []
        mut_ctx = False
        for (n, t) in m['params']:
            if t.startswith('&mut dyn FnMut(DirEntry'):
                continue
            st, se, et, g = spec_of(n, t)
            if t == '&mut Context':
                mut_ctx = True
            if st is not None:
                sargs.append('%s: %s' % (n, st))
                anames.append(n)
        name = m['name']
        names.append(name)
        L.append('    open spec fn allowed_%s(&self%s) -> bool { (**self).allowed_%s(%s) }' % (name, ''.join(', ' + a for a in sargs), name, ', '.join(anames)))
        ret = m['ret']
        if ret:
            rf = resfn(ret, name)
            if rf not in seen:
                seen.add(rf)
                L.append('    open spec fn %s(&self) -> %s { (**self).%s() }' % (rf, ret.replace("IoctlData<'_>", 'IoctlRes'), rf))
        if mut_ctx:
            L.append('    open spec fn ctx_%s(&self) -> Context { (**self).ctx_%s() }' % (name, name))
    return '\n'.join(L), names


# ======================================================================================================================
# trait AsyncFileSystem (src/api/filesystem/async_io.rs) - additive; used by unit `asyncsrv` (C20) only.
AFILE = 'src/api/filesystem/async_io.rs'
ATRAIT = 'pub trait AsyncFileSystem: FileSystem'
# stream parameters: the async trait names the async flavour of the same stream object; like their sync counterparts
# they are not part of the call's value (identity of the stream objects is not pinned, see C02 not_covered)
ASYNC_STREAMS = {'&mut (dyn AsyncZeroCopyWriter + Send)': ('&mut dyn ZeroCopyWriter', '&mut ZW', 'ZW: AsyncZeroCopyWriter'),
                 '&mut (dyn AsyncZeroCopyReader + Send)': ('&mut dyn ZeroCopyReader', '&mut ZR', 'ZR: AsyncZeroCopyReader')}


def parse_methods_in(root, file, header):
    """parse_methods for an arbitrary trait (`async fn` declarations included: the `async` qualifier precedes `fn` and is
    not part of what is parsed; -> list of dict(name, params, ret, line, is_async))"""
    src = X.Source(root, file)
    sc = src.scopes(header)
    if len(sc) != 1:
        raise X.ExtractError('%s not found exactly once in %s' % (header, file))
    ob, cb = sc[0]
    out = []
    body_msk = src.msk[ob + 1:cb]
    for m in re.finditer(r'\bfn\s+(\w+)\b', body_msk):
        p = ob + 1 + m.start()
        seg = src.msk[ob + 1:p]
        if seg.count('{') - seg.count('}') != 0:
            continue
        qm = re.search(r'((?:async\s+)?(?:unsafe\s+)?)$', src.src[:p])
        ls = qm.start(1) if qm else p
        _, attrs = X.leading_attrs(src.src, src.msk, ls)
        if not X.attrs_enabled(attrs):
            continue
        po = src.msk.index('(', p)
        pc = X.match_close(src.msk, po)
        params_txt = src.src[po + 1:pc]
        k, d = pc + 1, 0
        while src.msk[k] not in '{;' or d:
            if src.msk[k] in '([':
                d += 1
            elif src.msk[k] in ')]':
                d -= 1
            k += 1
        rm = re.match(r'\s*->\s*(.*?)\s*$', src.src[pc + 1:k], re.S)
        ret = X.norm_ws(rm.group(1)) if rm else None
        pm = X.mask(params_txt)
        parts, cur, d = [], '', 0
        for i, ch in enumerate(params_txt):
            mc = pm[i]
            if mc in '([<':
                d += 1
            elif mc in ')]>' and not (mc == '>' and i > 0 and pm[i - 1] == '-'):
                d -= 1
            if mc == ',' and d == 0:
                parts.append(cur)
                cur = ''
            else:
                cur += ch
        parts.append(cur)
        params = []
        for prm in parts:
            prm = X.norm_ws(re.sub(r'#\[[^\]]*\]', '', re.sub(r'//[^\n]*', '', prm)))
            if not prm or prm in ('&self', 'self', '&mut self'):
                continue
            n, t = prm.split(':', 1)
            params.append((n.strip().lstrip('_') or 'p', X.norm_ws(t)))
        out.append(dict(name=m.group(1), params=params, ret=ret, line=src.line_of(p), is_async='async' in (qm.group(1) if qm else '')))
    return out


def _tuple_parts(ty):
    """'(A, B<C, D>, E)' -> ['A', 'B<C, D>', 'E'];  anything else -> None"""
    ty = ty.strip()
    if not (ty.startswith('(') and ty.endswith(')')) or ty == '()':
        return None
    inner, parts, cur, d = ty[1:-1], [], '', 0
    for ch in inner:
        if ch in '(<[':
            d += 1
        elif ch in ')>]':
            d -= 1
        if ch == ',' and d == 0:
            parts.append(cur.strip())
            cur = ''
        else:
            cur += ch
    if cur.strip():
        parts.append(cur.strip())
    return parts


def gen_async_trait(root, notes, sync_info, sync_methods, tag=None, server=True, project=False):
    """Model of `trait AsyncFileSystem: FileSystem`, generated from the real trait text on every run.

    C20 says the async path invokes "the same filesystem operation with the same arguments": every method `async_<op>`
    is therefore tied to the sync method `<op>` of the generated FileSystem model and SHARES its specification functions -
    capability `allowed_<op>(args)` (exactly these arguments) and the result function of <op> (`res_entry()`, ...):

        fn async_<op>(&self, <real parameter list>) -> (res: <real return type>)      // `async` dropped (R18)
            requires self.touch_ok(), self.allowed_<op>(<value of every argument>),  // [touch] [cap]
            ensures  <res embedded into the sync result type> == self.res_<..>(), ...same clauses as the sync method

    "Same arguments" is checked here, mechanically, against the two trait texts:
      * the parameter lists must agree name by name and type by type, except that a stream parameter
        `&mut (dyn AsyncZeroCopyWriter + Send)` / `&mut (dyn AsyncZeroCopyReader + Send)` stands where the sync method has
        `&mut dyn ZeroCopyWriter` / `&mut dyn ZeroCopyReader` (the async flavour of the same stream; never part of the
        call's value in either model).  Any other difference - an argument one side lacks - is an ExtractError (exit 2):
        there is no sensible meaning of "same arguments" then, and it must be looked at by a human.
      * the return type must be the sync one, or a tuple that is a strict PREFIX of the sync tuple whose missing trailing
        components are all `Option<_>`: the async result (a, b) then stands for the sync result (a, b, None) - the async
        API cannot express the missing component (today: the passthrough backing id of open / create), so the only sync
        results that have an async counterpart are those with `None` there.  Logged in `notes`.
    An async method without a sync namesake, or a method of the trait that is not `async fn async_*`, is an ExtractError.
    tag (optional, e.g. 'C20.arc.%s.forward'): the capability clause and every ensures clause of method async_<op> are put on lines of
    their own carrying `[tag % op]` (used by unit asyncarcfs, where these clauses ARE the property); default output unchanged.
    server=False: the clauses gen_trait only emits with server=True (err_ok of errors, res_read_data) are left out, to match a
    FileSystem model generated with server=False (unit asyncvfs)."""
    ms = parse_methods_in(root, AFILE, ATRAIT)
    sync_by_name = {m['name']: m for m in sync_methods}
    L = ['// ---- model of trait AsyncFileSystem, generated from %s (%d methods); shares allowed_*/res_* with trait FileSystem' % (AFILE, len(ms)),
         'pub trait AsyncZeroCopyWriter: ZeroCopyWriter { }', 'pub trait AsyncZeroCopyReader: ZeroCopyReader { }',
         'pub trait AsyncFileSystem: FileSystem {']
    ainfo = {}
    for m in ms:
        an = m['name']
        if not an.startswith('async_') or not m['is_async']:
            raise X.ExtractError('AsyncFileSystem::%s is not an `async fn async_<op>`' % an)
        op = an[len('async_'):]
        if op not in sync_by_name or op not in sync_info:
            raise X.ExtractError('AsyncFileSystem::%s has no sync counterpart FileSystem::%s' % (an, op))
        sm = sync_by_name[op]
        if len(sm['params']) != len(m['params']):
            raise X.ExtractError('AsyncFileSystem::%s and FileSystem::%s differ in the number of arguments (%d vs %d): "same arguments" undefined'
                                 % (an, op, len(m['params']), len(sm['params'])))
        eparams, sexprs, gens = [], [], []
        for (n, t), (sn, st) in zip(m['params'], sm['params']):
            if t in ASYNC_STREAMS:
                want, et, g = ASYNC_STREAMS[t]
                if st != want or n != sn:
                    raise X.ExtractError('AsyncFileSystem::%s(%s: %s) vs FileSystem::%s(%s: %s)' % (an, n, t, op, sn, st))
                eparams.append('%s: %s' % (n, et))
                gens.append(g)
                notes.append('fsmodel: %s(%s: %s) abstracted to %s (stream object; sync has %s)' % (an, n, t, et, st))
                continue
            if (n, t) != (sn, st):
                raise X.ExtractError('AsyncFileSystem::%s(%s: %s) vs FileSystem::%s(%s: %s): "same arguments" undefined' % (an, n, t, op, sn, st))
            sty, se, et, g = spec_of(n, t)
            if sty is None or g:
                raise X.ExtractError('AsyncFileSystem::%s(%s: %s): parameter kind not supported by the async model' % (an, n, t))
            eparams.append('%s: %s' % (n, et))
            sexprs.append(se)
        ret, sret = m['ret'], sm['ret']
        rf = sync_info[op]['resfn']
        tg = (' [%s]' % (tag % op)) if tag else ''
        req = ['self.touch_ok(), // [touch]', 'self.allowed_%s(%s), // [cap]%s' % (op, ', '.join(sexprs), tg)]
        for (n, t) in m['params']:
            if t == 'stat64':
                req.append('self.ids_ok(%s.st_uid, %s.st_gid), // [ids]' % (n, n))
        ens = []
        if ret != sret:
            ap = _tuple_parts(re.match(r'^io::Result<(.*)>$', ret or '').group(1)) if ret and ret.startswith('io::Result<') else None
            sp = _tuple_parts(re.match(r'^io::Result<(.*)>$', sret or '').group(1)) if sret and sret.startswith('io::Result<') else None
            if not ap or not sp or len(ap) >= len(sp) or sp[:len(ap)] != ap or not all(x.startswith('Option<') for x in sp[len(ap):]):
                raise X.ExtractError('AsyncFileSystem::%s returns %s, FileSystem::%s returns %s: no embedding' % (an, ret, op, sret))
            comps = ['res->Ok_0.%d' % i for i in range(len(ap))] + ['None::<%s>' % x[len('Option<'):-1] for x in sp[len(ap):]]
            ens.append('res is Ok <==> self.%s() is Ok' % rf)
            if project:
                # project=True (unit asyncpt: the implementor's SYNC method is the reference): the async result is the sync result WITHOUT the trailing
                # components the async API cannot carry - nothing is said about what those components were
                ens.append('res is Ok ==> %s' % ' && '.join('res->Ok_0.%d == self.%s()->Ok_0.%d' % (i, rf, i) for i in range(len(ap))))
            else:
                ens.append('res is Ok ==> self.%s()->Ok_0 == (%s)' % (rf, ', '.join(comps)))
            ens.append('res is Err ==> self.%s()->Err_0 == res->Err_0' % rf)
            notes.append('fsmodel: %s returns %s where %s returns %s: the async result stands for the sync result with %s = None'
                         % (an, ret, op, sret, ', '.join(sp[len(ap):])))
        elif ret:
            ens.append('res == self.%s()' % rf)
        if server and ret and ret.startswith('io::Result'):
            ens.append('res is Err ==> err_ok(res->Err_0)')       # T8, as for the sync method
        if op == 'read':
            ens.append('zw_appended(*old(w), *final(w), res)')
            if server:
                ens.append('res is Ok ==> final(w).zw_buf() == old(w).zw_buf() + self.res_read_data() && res->Ok_0 == self.res_read_data().len()')
        g = ('<%s>' % ', '.join(gens)) if gens else ''
        L.append('    fn %s%s(&self%s)%s' % (an, g, ''.join(', ' + p for p in eparams), (' -> (res: %s)' % ret) if ret else ''))
        L.append('        requires ' + '\n            '.join(req))
        if tag and ens:
            L.append('        ensures ' + '\n            '.join('%s%s //%s' % (e, ',' if i + 1 < len(ens) else '', tg) for i, e in enumerate(ens)) + '\n        ;')
        else:
            L.append('        ensures ' + ', '.join(ens) + ';' if ens else '        ;')
        ainfo[an] = dict(op=op, ret=ret, sync_ret=sret, resfn=rf, line=m['line'], eparams=eparams, gens=gens)
    L.append('}')
    return '\n'.join(L), ainfo


def gen_async_impl(ainfo, struct, inode_ty, handle_ty):
    """an opaque implementor of the generated AsyncFileSystem model (a backend): every method external_body; its contract is the
    trait's, i.e. it shares allowed_*/res_* with the struct's `impl FileSystem` (fsmodel.gen_impl)"""
    L = ['impl AsyncFileSystem for %s {' % struct]
    for an, d in ainfo.items():
        g = ('<%s>' % ', '.join(d['gens'])) if d['gens'] else ''
        ps = ''.join(', ' + p.replace('Self::Inode', inode_ty).replace('Self::Handle', handle_ty) for p in d['eparams'])
        ret = (' -> (res: %s)' % d['ret'].replace('Self::Inode', inode_ty).replace('Self::Handle', handle_ty)) if d['ret'] else ''
        L.append('    #[verifier::external_body] fn %s%s(&self%s)%s { unimplemented!() }' % (an, g, ps, ret))
    L.append('}')
    return '\n'.join(L)
