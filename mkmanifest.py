#!/usr/bin/env python3
"""Regenerate /verif/MANIFEST.json from vx/registry.py (claimed checks) and the fixed not-applicable list."""
import json, os, sys
sys.path.insert(0, os.path.dirname(os.path.abspath(__file__)))
from vx import registry as R

CLAIM = {
 'C13': ('Complete proofs (Kani/CBMC, loop-free harnesses over fully symbolic inputs, regenerated from the current source text on every run): every wire struct has the size, field offsets and field widths of the kernel structure measured by a C probe of /usr/include/linux/fuse.h (field types compared too), every public constant, bitflag and enum discriminant has the kernel value, Opcode::from maps all 2^32 inputs correctly (unknown -> MaxOpcode), and the conversions stat64 <-> Attr, statvfs64 -> Kstatfs, SetattrIn -> stat64, Entry -> EntryOut preserve every field with all field values symbolic.',
         'Kani function-level harnesses (loop-free, full domain) generated from the kernel header and the Rust source text'),
 'C04': ('Deductive proof (Verus, any number and sizes of segments) of the transport core on real text: IoBuffers::mark_used advances the cursor over the segment list by exactly n bytes (the remaining byte addresses are the old ones with the first min(n, total) removed, in order, none skipped or repeated), counts them, fails on counter overflow without moving, and its unwrap() cannot panic; consume moves exactly what the callback reports and nothing on error; FuseDevWriter space accounting (available + written = capacity, the space check fails iff the request exceeds it) and FuseDevWriter::commit performs exactly one device write of own ++ other bytes. Readers/writers built on raw pointers are NOT covered.',
         'Verus contracts with loop invariants over a sequence-of-addresses view, on extracted real text'),
 'C08': ('Deductive proof (Verus, any store contents, any count) on the real text of the passthrough InodeStore and PassthroughFs::forget_one: insert/remove/get maintain the data, id and handle maps exactly (remove deletes exactly that inode, keeps the id -> number record when asked to, releases it otherwise); forget_one never touches the root, may only write current-minus-count saturating at zero into the reference count, removes the inode only in the branch where the successful compare-exchange wrote zero, changes nothing but that inode, and keeps the id -> number record whenever numbers are allocated by the server. The history-level accounting of references is NOT decided.',
         'Verus contracts, representation maps and a capability on compare_exchange, on extracted real text'),
 'C12': ('Deductive proof (Verus, every major/minor/max_readahead/flags/flags2 and every option set the filesystem may return) on the real text of Server::init: the capability word offered to the filesystem is flags, widened by flags2 only when FUSE_INIT_EXT comes with its payload; a lower major is answered EPROTO and a higher one with the server major without initialising the filesystem; otherwise the kernel\'s view of the reply (flags2 counted only with the FUSE_INIT_EXT marker) equals capable & want, the reply has the length for the client\'s minor, max_write fits the transport buffer, and only the client\'s version may be stored. Also: Vfs::open/opendir answer ENOSYS exactly when no_open/no_opendir is in force; PassthroughFs::init may turn each of its five behaviour switches (writeback, no_open, no_opendir, killpriv_v2, perfile_dax) on only when the client offered the feature, and requests that feature from the server under exactly that condition.',
         'Verus contracts on extracted real text (Server::init), existential reply specification with explicit witnesses'),
 'C16': ('Deductive proof (Verus, names of any length, any max and cursor state) of the reply-assembly step only: add_dirent appends either nothing and returns Ok(0) - exactly when the whole entry does not fit in what is left of the requested size - or one whole 8-byte-aligned entry (entry_out for plus, dirent header with the caller\'s ino/off/type/namelen, name, zero padding) and returns its size, and never grows the reply beyond the requested size. The exactly-once property across chunks is NOT decided.',
         'Verus contract on extracted real text (add_dirent)'),
 'C01': ('Deductive proof (Verus, every request byte string and every reply-buffer capacity) on the real text of Server::handle_message and all opcode handlers against an abstract transport: every device write is preceded by the proof that nothing was emitted before (at most one reply, one write call), that a reply is allowed at all (never for FORGET / BATCH_FORGET, including the over-long path), and that the bytes are one complete message (length field = bytes emitted, unique = the request\'s, error zero or a negated errno); all arithmetic, casts, unwraps and the debug assertions of the extracted functions are proved not to fail.',
         'Verus contracts on extracted real text, reply obligations as preconditions of the emission points'),
 'C02': ('Deductive proof (Verus, all field valuations, names and payloads of any length): for every opcode the handler holds only the capability for the one filesystem operation the protocol prescribes with exactly the decoded arguments (optional arguments following their flag bits), handle_message dispatches every opcode number to its handler, replies ENOSYS to unknown ones, and itself calls only id_remap_with_nodeid(ctx from header, nodeid).',
         'Verus capability preconditions on extracted real text'),
 'C03': ('Deductive proof (Verus): the only bytes any handler may emit are the specified reply - header(len, -errno or 0, unique) followed by the encoding of the value the filesystem returned, with one shared definition of the entry encoding (attr flags and split timeouts included) for lookup, mknod, mkdir, symlink, link and create, and the read payload equal to the bytes the filesystem produced.',
         'Verus contracts on extracted real text, reply obligations as preconditions of the emission points'),
 'C15': ('Deductive proof (Verus, unbounded, sequential model of the locks) on the real text of the passthrough handle table and its users: HandleMap behaves as a map with exact effects (insert adds exactly one key; release removes exactly that handle iff it exists and belongs to the inode, else EBADF and no change; get resolves only the matching (handle, inode) pair; clear/destroy empty the table and the directory-position records); handle numbers are fresh by the invariant "all keys < counter, cookie keys are handle keys", which a fresh server satisfies and every function that writes the table preserves (the set of writers is closed by a textual scan); open/opendir/create/release/releasedir leave the table untouched under no_open/no_opendir and store or remove nothing when they fail; destroy leaves no handle, no position record and no inode but the re-imported root; a failed create may not keep an inode reference. Whole-history file-descriptor accounting (drops of File/Arc/MountFd) is NOT decided.',
         'Verus contracts on extracted real text; data structure against an abstract map view'),
 'C17': ('Deductive proof (Verus, unbounded: any segment list, any cursor position, any byte counts) with the dirty bitmap as ghost state (the log of addresses passed to Bitmap::mark_dirty, threaded as an erased token through the real text): every writer operation on the virtio-fs transport - IoBuffers::consume / consume_for_write, VirtioFsWriter::write, write_from, write_from_at, write_all_from - appends exactly the addresses it filled (the prefix of the reply space its callback reported, for write proved of the real closure text with the raw copy abstracted by a model call); failed or refused operations, every Reader operation, split_at and commit append nothing, so request buffers and unused reply space are never marked; split writers mark through the same contract because split_at yields cursors over exactly the two address ranges.',
         'Verus contracts on extracted real text with a ghost dirty log (rule R23)'),
 'C20': ('Deductive proof (Verus, every request byte string, reply capacity and filesystem result) that the asynchronous path meets THE SAME contracts as the synchronous one: the real text of Server::async_handle_message, the ten async handlers and the async reply helpers (rule R18: async fn as fn, .await as a call) is verified against the very clauses unit `server` proves for their sync twins - reused, not copied - over one shared specification (reply_msg / want_msg and the per-opcode functions). So for every request both paths may invoke only the one operation the protocol names, with exactly the decoded arguments and the translated caller, and may emit only the specified reply bytes, at most once and never for FORGET / BATCH_FORGET; over-long messages, unknown opcodes and the 37 opcodes the async dispatcher hands to the sync handlers fall under the same clauses. FuseDevWriter::async_commit is checked against the commit model. What the specification leaves open (which error a malformed request gets) is not decided.',
         'Verus contracts on extracted real text (rule R18), contracts shared with the sync unit'),
 'C18': ('Deductive proof (Verus, unbounded over all u64/i32/u32 arguments and flag words) on the real text: (1) PassthroughFs::seal_size_check lets a request through exactly when it is a write or a size-keeping fallocate that stays within the current file size and refuses everything else with the prescribed errno; (2) the call sites: with host system calls as capability-guarded externals, on a sealed export PassthroughFs::write can reach the host write only for an empty write or one that ends within the fstat size on a descriptor not in append mode (the request flags are applied to the descriptor by check_fd_flags, also under contract), fallocate only with a size-keeping mode inside the file, setattr never reaches ftruncate and fails whenever FATTR_SIZE is set, and open_inode (every re-open for I/O: OPEN, CREATE of an existing name, truncate by path) never passes O_TRUNC to the kernel. Kernel semantics of the system calls are assumptions.',
         'Verus contracts on extracted real text; host system calls as capability-guarded external functions'),
 'C06': ('Deductive proof (Verus, names of any length) of the name gate on the real text: the predicates is_dot_or_dotdot / is_safe_path_component / validate_path_component equal "no slash, not . or ..", PassthroughFs::validate_path_component applies them iff it runs standalone, PassthroughFs::lookup and Vfs::lookup refuse names with a slash, and every VFS operation that creates, removes, renames or links a name returns EINVAL for an unsafe name and holds no capability to call any backend in that case (a call placed before the check fails its precondition).',
         'Verus contracts + capability preconditions on extracted real text'),
 'C07': ('Deductive proof (Verus) for an arbitrary mount-table state: the inode encoding is a bijection (bit-vector lemmas), get_real_rootfs computes the specified route, and each of the 32 routed VFS operations holds the capability for exactly the owning backend with the backend inode number and unchanged arguments, returns ENOENT without any call for a vacant slot, refuses rename/link across mounts, and re-encodes returned entries/attributes with the mount index.',
         'Verus contracts + capability preconditions on extracted real text'),
 'C14': ('Deductive proof (Verus, all u32 ids): remap_id equals the specified range shift with identity outside the range and a proved round trip; every entry/attribute returned through the VFS carries owner ids translated internal->external with the mount-or-global mapping, setattr hands the backend ids translated external->internal, and the request context is translated with the mapping of the mount the request is routed to.',
         'Verus contracts on extracted real text'),
}

NA = {
 'C05': 'oracle is the Linux kernel: every passthrough operation is a sequence of libc calls whose contract would have to be a model of Linux VFS semantics (a different family); credential restoration is an RAII Drop around raw syscall(2)',
 'C09': 'interleavings of concurrent lookups/forgets: Kani has no threads; Verus would need the code rewritten with its atomic-invariant and permission types, which would be a model and not the code',
 'C10': 'overlay union semantics: ~3000 lines whose steps are Layer calls bottoming out in host syscalls, with an Arc<Mutex<..>> inode graph; no contract within reach states "lower layers never change" (about fifteen call sites reach layer mutators directly)',
 'C11': 'overlay on-disk state across restart / copy-up: oracle is a filesystem model and the on-disk state after restart; same code as C10',
 'C19': 'serialisation is generated by versionize_derive (proc-macro, feature off); restoration rebuilds an Arc/HashMap graph through ArcSwap stores',
}
PENDING = 'not yet built in this framework (under construction; see DESIGN.md section 5)'

props = [json.loads(l) for l in open(os.path.join(os.path.dirname(os.path.abspath(__file__)), 'properties.jsonl'))]
checks, na = [], []
for p in props:
    pid = p['id']
    if pid in R.PROPS and pid in CLAIM:
        spec = R.PROPS[pid]
        engines = ['VX: ' + ', '.join(spec['vx_units'])] if spec.get('vx_units') else []
        if spec.get('kx'):
            engines.append('KX: ' + ', '.join(spec['kx']))
        checks.append(dict(
            property_id=pid, quick_cmd='./check %s --tier quick' % pid, thorough_cmd='./check %s --tier thorough' % pid,
            evidence_file='/verif/evidence/%s.json' % pid, replay_cmd_template='./check %s --replay {path}' % pid,
            engine='; '.join(engines),
            level_claimed=dict(category='proof', text=CLAIM[pid][0], design_ref=spec['design_ref']),
            level_note='NOT covered: ' + ' | '.join(spec.get('not_covered', [])) + ' || Trusted: ' + ' | '.join(R.TRUSTED_COMMON + spec.get('trusted', [])),
            technique='contract-based deductive verification: ' + CLAIM[pid][1]))
    else:
        na.append(dict(property_id=pid, reason=NA.get(pid, PENDING)))
m = dict(version=1,
         setup_cmd='./setup.sh',
         hooks=dict(guard='fuse_backend_rs_verif', enable='none: no hooks are needed (Verus reads source text, Kani and the replayer use the public API only)',
                    baseline_off_cmd='cd /repo && cargo test --workspace --no-fail-fast --offline', source_commits=[], add_only=True),
         engines=[dict(name='VX', path='/verif/vx', serves_properties=[c['property_id'] for c in checks if 'VX' in c['engine']],
                       kind_free_text='Verus on real function text extracted mechanically from /repo on every run (vx/extract.py, rules R1-R11), contracts in vx/units/*.py'),
                  dict(name='KX', path='/verif/kx', serves_properties=[c['property_id'] for c in checks if 'KX' in c['engine']],
                       kind_free_text='Kani/CBMC loop-free full-domain harnesses on io::Error-free leaf code through the public API')],
         checks=checks, not_applicable=na,
         notes='Fix commits in /repo: see known_findings.txt. Seeded breaking changes and which check catches them: seeded/ and DESIGN.md.')
json.dump(m, open(os.path.join(os.path.dirname(os.path.abspath(__file__)), 'MANIFEST.json'), 'w'), indent=1)
print('claimed:', [c['property_id'] for c in checks])
