#!/bin/bash
# sanity before every commit of /verif: every python file compiles, the registry imports, MANIFEST.json regenerates and validates, evidence validates
set -e
cd /verif
python3 -m py_compile check mkmanifest.py vx/*.py vx/units/*.py rx/*.py kx/*.py tools_*.py
python3 mkmanifest.py > /dev/null
python3-vt - <<'PY'
import json, jsonschema, glob
jsonschema.validate(json.load(open('/verif/MANIFEST.json')), json.load(open('/root/.vp/MANIFEST.schema.json')))
es = json.load(open('/root/.vp/EVIDENCE.schema.json'))
for f in sorted(glob.glob('/verif/evidence/C*.json')):
    jsonschema.validate(json.load(open(f)), es)
m = json.load(open('/verif/MANIFEST.json'))
assert len(m['checks']) == 20 and not m['not_applicable'], 'claims changed'
print('precommit ok')
PY
# every scripted mutant must apply to the current /repo (its old text occurs exactly once)
python3 - <<'PY' || exit 1
import sys; sys.path.insert(0, '/verif')
from vx import mutants as M
bad = [(k, n) for k, v in M.MUTANTS.items() for (n, f, o, w) in v if open('/repo/' + f).read().count(o) != 1]
if bad:
    print('scripted mutants that no longer apply:', bad); sys.exit(1)
PY
